package autodiff

// operand structures: (n, order) of a and of b
func verifJetCfg(cfg int) (int, int, int, int) {
	switch cfg {
	case 0:
		return 0, 0, 0, 0
	case 1:
		return 1, 1, 1, 1
	case 2:
		return 2, 2, 2, 2
	case 3: // constant second operand
		return 2, 2, 0, 0
	case 4: // constant first operand
		return 0, 0, 2, 2
	case 5: // mismatching orders
		return 2, 1, 2, 2
	case 6:
		return 2, 2, 2, 1
	case 7:
		return 1, 2, 1, 2
	}
	panic("bad cfg")
}


func verifPos(x, y float64)      { VerifAssume(x > 0) }
func verifAny(x, y float64)      {}
func verifSqr(x float64) float64 { return x * x }
