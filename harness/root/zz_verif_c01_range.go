package autodiff

// C01, bit-precise side: for every finite argument the first derivative of the
// bounded-slope functions is not NaN and lies in the range of the mathematical
// derivative (Sigmoid' in [0, 1/4], Log1pExp' = Sigmoid in [0, 1], Tanh' in
// [0, 1]); overflow and underflow of exp enter through the documented range
// steps of math.Exp. A defect that is the same real function but evaluates
// Inf/Inf in a tail shows here.
func verif_C01_range(op int) {
	x := VerifFinite64("a")
	a := NewReal64(x)
	a.SetVariable(0, 1, 1)
	r := NewReal64(0)
	t := NewReal64(0)
	switch op {
	case 0:
		r.Sigmoid(a, t)
		d := r.GetDerivative(0)
		VerifAssert("Sigmoid:derivative-not-NaN", d == d)
		VerifAssert("Sigmoid:derivative-in-[0,1/4]", d >= 0 && d <= 0.2500001)
	case 1:
		r.Log1pExp(a)
		d := r.GetDerivative(0)
		VerifAssert("Log1pExp:derivative-not-NaN", d == d)
		VerifAssert("Log1pExp:derivative-in-[0,1]", d >= 0 && d <= 1.0000001)
	case 2:
		r.Tanh(a)
		d := r.GetDerivative(0)
		VerifAssert("Tanh:derivative-not-NaN", d == d)
		VerifAssert("Tanh:derivative-in-[0,1]", d >= 0 && d <= 1.0000001)
	}
	VerifReach("derivative-range")
}

func init() {
	VerifRegister("verif_C01_range", func(a []int) { verif_C01_range(a[0]) })
}
