package autodiff

// C08 for containers: element-wise vector and matrix operations and the matrix
// product with the receiver being one or both operands, or sharing storage
// with them through views, compared with a fresh receiver on equal operands.

// alias: 1 r = a, 2 r = b, 3 r = a = b
func verif_C08_vec(op, kind, alias, n, pa, pb int) {
	real := verifIsReal(kind)
	A := verifVecVals3(kind, "a", n, pa, real)
	B := verifVecVals3(kind, "b", n, pb, real)
	if alias == 3 {
		B = A
	}
	fresh := verifNullVector(kind, n)
	a0, b0 := A.vector(kind), B.vector(kind)
	a, b := A.vector(kind), B.vector(kind)
	var r Vector
	switch alias {
	case 1:
		r = a
	case 2:
		r = b
	case 3:
		r = a
		b = a
		b0 = a0
	}
	s := VerifFinite64("s")
	if verifIs32(kind) {
		s = float64(float32(s))
	}
	t, _ := verifKindType(kind)
	sc := NewScalar(t, 0)
	sc.SetFloat64(s)
	name := ""
	var p1, p2 bool
	switch op {
	case 0:
		name = "VaddV"
		p1 = VerifPanics(func() { fresh.VaddV(a0, b0) })
		p2 = VerifPanics(func() { r.VaddV(a, b) })
	case 1:
		name = "VsubV"
		p1 = VerifPanics(func() { fresh.VsubV(a0, b0) })
		p2 = VerifPanics(func() { r.VsubV(a, b) })
	case 2:
		name = "VmulV"
		p1 = VerifPanics(func() { fresh.VmulV(a0, b0) })
		p2 = VerifPanics(func() { r.VmulV(a, b) })
	case 3:
		name = "VdivV"
		p1 = VerifPanics(func() { fresh.VdivV(a0, b0) })
		p2 = VerifPanics(func() { r.VdivV(a, b) })
	case 4:
		name = "VaddS"
		p1 = VerifPanics(func() { fresh.VaddS(a0, sc) })
		p2 = VerifPanics(func() { r.VaddS(a, sc) })
	case 5:
		name = "VmulS"
		p1 = VerifPanics(func() { fresh.VmulS(a0, sc) })
		p2 = VerifPanics(func() { r.VmulS(a, sc) })
	case 6:
		name = "VsubS"
		p1 = VerifPanics(func() { fresh.VsubS(a0, sc) })
		p2 = VerifPanics(func() { r.VsubS(a, sc) })
	case 7:
		name = "VdivS"
		VerifAssume(s != 0)
		p1 = VerifPanics(func() { fresh.VdivS(a0, sc) })
		p2 = VerifPanics(func() { r.VdivS(a, sc) })
	case 8:
		name = "Set"
		p1 = VerifPanics(func() { fresh.Set(a0) })
		p2 = VerifPanics(func() { r.Set(a) })
	default:
		panic("bad op")
	}
	// a panic of the aliased call is the API rejecting the aliasing; a result must be right
	VerifAssert(name+":fresh-panics-but-aliased-does-not", p2 || !p1)
	if !p1 && !p2 {
		verifSameVectors(name+":aliased-vs-fresh", r, fresh, real)
	}
	VerifReach("C08-vec")
}

func verif_C08_mat(op, kind, alias, n, pa, pb int) {
	real := verifIsReal(kind)
	A := verifMatVals3(kind, "a", n, n, pa, real)
	B := verifMatVals3(kind, "b", n, n, pb, real)
	if alias == 3 {
		B = A
	}
	fresh := verifNullMatrix(kind, n, n)
	a0, b0 := A.matrix(kind), B.matrix(kind)
	a, b := A.matrix(kind), B.matrix(kind)
	var r Matrix
	switch alias {
	case 1:
		r = a
	case 2:
		r = b
	case 3:
		r = a
		b = a
		b0 = a0
	}
	s := VerifFinite64("s")
	if verifIs32(kind) {
		s = float64(float32(s))
	}
	t, _ := verifKindType(kind)
	sc := NewScalar(t, 0)
	sc.SetFloat64(s)
	name := ""
	var p1, p2 bool
	switch op {
	case 0:
		name = "MaddM"
		p1 = VerifPanics(func() { fresh.MaddM(a0, b0) })
		p2 = VerifPanics(func() { r.MaddM(a, b) })
	case 1:
		name = "MsubM"
		p1 = VerifPanics(func() { fresh.MsubM(a0, b0) })
		p2 = VerifPanics(func() { r.MsubM(a, b) })
	case 2:
		name = "MmulM"
		p1 = VerifPanics(func() { fresh.MmulM(a0, b0) })
		p2 = VerifPanics(func() { r.MmulM(a, b) })
	case 3:
		name = "MdivM"
		p1 = VerifPanics(func() { fresh.MdivM(a0, b0) })
		p2 = VerifPanics(func() { r.MdivM(a, b) })
	case 4:
		name = "MmulS"
		p1 = VerifPanics(func() { fresh.MmulS(a0, sc) })
		p2 = VerifPanics(func() { r.MmulS(a, sc) })
	case 5:
		name = "MaddS"
		p1 = VerifPanics(func() { fresh.MaddS(a0, sc) })
		p2 = VerifPanics(func() { r.MaddS(a, sc) })
	case 6:
		name = "MdotM"
		p1 = VerifPanics(func() { fresh.MdotM(a0, b0) })
		p2 = VerifPanics(func() { r.MdotM(a, b) })
	case 7:
		name = "Set"
		p1 = VerifPanics(func() { fresh.Set(a0) })
		p2 = VerifPanics(func() { r.Set(a) })
	default:
		panic("bad op")
	}
	// a panic of the aliased call is the API rejecting the aliasing; a result must be right
	VerifAssert(name+":fresh-panics-but-aliased-does-not", p2 || !p1)
	if !p1 && !p2 {
		verifSameMatrices(name+":aliased-vs-fresh", r, fresh, real)
	}
	VerifReach("C08-mat")
}

// matrix product / element-wise operation with the receiver sharing storage
// with an operand through a view. cfg selects receiver and operand views of one
// 3x3 parent:
//
//	0: r = P[0:2,0:2], a = P[0:2,0:2] (distinct view object, same elements), b fresh
//	1: r = P[0:2,0:2], a fresh, b = P[0:2,0:2] (distinct view object)
//	2: r = P[0:2,0:2], a = P[0:2,0:2].T().T(), b fresh
//	3: r = P[0:2,0:2], a fresh, b = P[0:2,0:2].T()  (transposed view of the result's storage)
//	4: r = P[0:2,0:2], a = P[0:2,0:2].T(), b fresh
//	5: r = P[0:2,0:2], a = b = P[0:2,0:2] (other objects)
func verif_C08_views(op, kind, cfg int) {
	real := verifIsReal(kind)
	PV := verifMatVals3(kind, "p", 3, 3, 0, real)
	XV := verifMatVals3(kind, "x", 2, 2, 0, real)
	P := PV.matrix(kind)
	// reference: compact copies
	Pc := PV.matrix(kind)
	blk := Pc.Slice(0, 2, 0, 2).CloneMatrix()
	x0 := XV.matrix(kind)
	fresh := verifNullMatrix(kind, 2, 2)
	r := P.Slice(0, 2, 0, 2)
	x := XV.matrix(kind)
	var a, b, a0, b0 ConstMatrix
	switch cfg {
	case 0:
		a, b, a0, b0 = P.Slice(0, 2, 0, 2), x, blk, x0
	case 1:
		a, b, a0, b0 = x, P.Slice(0, 2, 0, 2), x0, blk
	case 2:
		a, b, a0, b0 = P.Slice(0, 2, 0, 2).T().T(), x, blk, x0
	case 3:
		a, b, a0, b0 = x, P.Slice(0, 2, 0, 2).T(), x0, blk.T().CloneMatrix()
	case 4:
		a, b, a0, b0 = P.Slice(0, 2, 0, 2).T(), x, blk.T().CloneMatrix(), x0
	case 5:
		a, b, a0, b0 = P.Slice(0, 2, 0, 2), P.Slice(0, 2, 0, 2), blk, blk
	default:
		panic("bad cfg")
	}
	name := ""
	var p1, p2 bool
	switch op {
	case 0:
		name = "MdotM"
		p1 = VerifPanics(func() { fresh.MdotM(a0, b0) })
		p2 = VerifPanics(func() { r.MdotM(a, b) })
	case 1:
		name = "MaddM"
		p1 = VerifPanics(func() { fresh.MaddM(a0, b0) })
		p2 = VerifPanics(func() { r.MaddM(a, b) })
	case 2:
		name = "MmulM"
		p1 = VerifPanics(func() { fresh.MmulM(a0, b0) })
		p2 = VerifPanics(func() { r.MmulM(a, b) })
	default:
		panic("bad op")
	}
	// a panic of the aliased call is the API rejecting the aliasing; a result must be right
	VerifAssert(name+":fresh-panics-but-aliased-does-not", p2 || !p1)
	if !p1 && !p2 {
		verifSameMatrices(name+":view-aliased-vs-fresh", r, fresh, real)
	}
	VerifReach("C08-views")
}

// the result is a row block of the right factor's own storage: r = P[r0:r0+2, :]
// (2x3), b = P (3x3), a fresh (2x3); r0 = 0 shares the origin, r0 = 1 does not.
func verif_C08_views2(kind, r0, left int) {
	real := verifIsReal(kind)
	PV := verifMatVals3(kind, "p", 3, 3, 0, real)
	P := PV.matrix(kind)
	Pc := PV.matrix(kind)
	fresh := verifNullMatrix(kind, 2, 3)
	r := P.Slice(r0, r0+2, 0, 3)
	var p1, p2 bool
	if left == 2 {
		// handled below
	} else if left == 0 {
		XV := verifMatVals3(kind, "x", 2, 3, 0, real)
		p1 = VerifPanics(func() { fresh.MdotM(XV.matrix(kind), Pc) })
		p2 = VerifPanics(func() { r.MdotM(XV.matrix(kind), P) })
	} else {
		// result is a column block of the left factor: r = P[:, c0:c0+2]^T-free variant
		fresh = verifNullMatrix(kind, 3, 2)
		r = P.Slice(0, 3, r0, r0+2)
		XV := verifMatVals3(kind, "x", 3, 2, 0, real)
		p1 = VerifPanics(func() { fresh.MdotM(Pc, XV.matrix(kind)) })
		p2 = VerifPanics(func() { r.MdotM(P, XV.matrix(kind)) })
	}
	if left == 2 {
		// work space [G|B] in one matrix: B = G.B with G and B disjoint column
		// blocks of the same storage (the result aliases the right factor, the
		// left factor is another view of that storage)
		fresh = verifNullMatrix(kind, 2, 1)
		G, B := P.Slice(0, 2, 0, 2), P.Slice(0, 2, 2, 3)
		Gc, Bc := Pc.Slice(0, 2, 0, 2), Pc.Slice(0, 2, 2, 3)
		r = B
		p1 = VerifPanics(func() { fresh.MdotM(Gc, Bc) })
		p2 = VerifPanics(func() { B.MdotM(G, B) })
	}
	VerifAssert("MdotM:fresh-panics-but-aliased-does-not", p2 || !p1)
	if !p1 && !p2 {
		verifSameMatrices("MdotM:block-of-factor-vs-fresh", r, fresh, real)
	}
	VerifReach("C08-views2")
}

// MdotV / VdotM reject aliasing of the result with the vector operand: they
// must panic exactly then.
func verif_C08_dotpanic(kind int) {
	real := verifIsReal(kind)
	A := verifMatVals3(kind, "a", 2, 2, 0, real)
	V := verifVecVals3(kind, "v", 2, 0, real)
	a := A.matrix(kind)
	v := V.vector(kind)
	r := verifNullVector(kind, 2)
	VerifAssert("MdotV:distinct-no-panic", !VerifPanics(func() { r.MdotV(a, v) }))
	ref := verifNullVector(kind, 2)
	ref.MdotV(A.matrix(kind), V.vector(kind))
	v2 := V.vector(kind)
	if !VerifPanics(func() { v2.MdotV(a, v2) }) {
		// not rejected: then the result must be right
		verifSameVectors("MdotV:aliased-not-rejected", v2, ref, real)
	}
	ref2 := verifNullVector(kind, 2)
	ref2.VdotM(V.vector(kind), A.matrix(kind))
	v3 := V.vector(kind)
	if !VerifPanics(func() { v3.VdotM(v3, a) }) {
		verifSameVectors("VdotM:aliased-not-rejected", v3, ref2, real)
	}
	VerifReach("C08-dotpanic")
}

func init() {
	VerifRegister("verif_C08_vec", func(a []int) { verif_C08_vec(a[0], a[1], a[2], a[3], a[4], a[5]) })
	VerifRegister("verif_C08_mat", func(a []int) { verif_C08_mat(a[0], a[1], a[2], a[3], a[4], a[5]) })
	VerifRegister("verif_C08_views", func(a []int) { verif_C08_views(a[0], a[1], a[2]) })
	VerifRegister("verif_C08_views2", func(a []int) { verif_C08_views2(a[0], a[1], a[2]) })
	VerifRegister("verif_C08_dotpanic", func(a []int) { verif_C08_dotpanic(a[0]) })
}
