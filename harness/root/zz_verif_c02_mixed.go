package autodiff

import "math"

// C02: mixed-type operand pairs. Min / Max / comparisons / ring operations of a
// receiver on operands of other scalar types agree with the numeric order and
// arithmetic of the operands as represented in the receiver's type.

// operand of type ty holding a symbolic value; returns the scalar and its value
// converted to float64 (exact for all these types)
func verifOperand(ty int, name string) (ConstScalar, float64) {
	switch ty {
	case 0:
		i := VerifInt(name, -300, 300)
		return NewConstInt(i), float64(i)
	case 1:
		i := VerifInt(name, -100, 100)
		return NewConstInt8(int8(i)), float64(int8(i))
	case 2:
		x := VerifFinite32(name)
		return NewConstFloat32(x), float64(x)
	case 3:
		x := VerifFinite64(name)
		return NewConstFloat64(x), x
	case 4:
		i := VerifInt(name, -300, 300)
		return NewInt(i), float64(i)
	case 5:
		x := VerifFinite32(name)
		return NewFloat32(x), float64(x)
	case 6:
		x := VerifFinite64(name)
		return NewReal64(x), x
	case 7:
		i := VerifInt(name, -300, 300)
		return NewConstInt64(int64(i)), float64(i)
	}
	panic("bad operand type")
}

// receiver 0: Real64, 1: Float64
func verif_C02_mixed(recv, ta, tb int) {
	a, x := verifOperand(ta, "a")
	b, y := verifOperand(tb, "b")
	var r Scalar
	if recv == 0 {
		r = NewReal64(0)
	} else {
		r = NewFloat64(0)
	}
	VerifAssume(x != y)
	r.Min(a, b)
	if x < y {
		VerifAssertEqF("Min:mixed-operands", r.GetFloat64(), x)
	} else {
		VerifAssertEqF("Min:mixed-operands", r.GetFloat64(), y)
	}
	r.Max(a, b)
	if x > y {
		VerifAssertEqF("Max:mixed-operands", r.GetFloat64(), x)
	} else {
		VerifAssertEqF("Max:mixed-operands", r.GetFloat64(), y)
	}
	r.Add(a, b)
	VerifAssertEqF("Add:mixed-operands", r.GetFloat64(), x+y)
	r.Sub(a, b)
	VerifAssertEqF("Sub:mixed-operands", r.GetFloat64(), x-y)
	r.Mul(a, b)
	VerifAssertEqF("Mul:mixed-operands", r.GetFloat64(), x*y)
	// comparisons of a receiver-typed scalar against the other operand
	var c Scalar
	if recv == 0 {
		c = NewReal64(x)
	} else {
		c = NewFloat64(x)
	}
	VerifAssert("Greater:mixed-operands", c.Greater(b) == (x > y))
	VerifAssert("Smaller:mixed-operands", c.Smaller(b) == (x < y))
	VerifReach("mixed")
}

// integer scalar types follow Go integer arithmetic at their width
func verif_C02_int(ty int) {
	switch ty {
	case 0:
		x, y := VerifAnyInt("x"), VerifAnyInt("y")
		a, b, r := NewInt(x), NewInt(y), NewInt(0)
		r.Add(a, b)
		VerifAssert("Int:Add", r.GetInt() == x+y)
		r.Sub(a, b)
		VerifAssert("Int:Sub", r.GetInt() == x-y)
		r.Mul(a, b)
		VerifAssert("Int:Mul", r.GetInt() == x*y)
		r.Neg(a)
		VerifAssert("Int:Neg", r.GetInt() == -x)
		VerifAssert("Int:Greater", a.Greater(b) == (x > y))
		VerifAssert("Int:Smaller", a.Smaller(b) == (x < y))
		s := 0
		if x < 0 {
			s = -1
		}
		if x > 0 {
			s = 1
		}
		VerifAssert("Int:Sign", a.Sign() == s)
		r.Min(a, b)
		if x < y {
			VerifAssert("Int:Min", r.GetInt() == x)
		} else {
			VerifAssert("Int:Min", r.GetInt() == y)
		}
		r.Max(a, b)
		if x > y {
			VerifAssert("Int:Max", r.GetInt() == x)
		} else {
			VerifAssert("Int:Max", r.GetInt() == y)
		}
		r.Abs(a)
		if x < 0 {
			VerifAssert("Int:Abs", r.GetInt() == -x)
		} else {
			VerifAssert("Int:Abs", r.GetInt() == x)
		}
	case 1:
		x, y := int8(VerifIntN("x", 8)), int8(VerifIntN("y", 8))
		a, b, r := NewInt8(x), NewInt8(y), NewInt8(0)
		r.Add(a, b)
		VerifAssert("Int8:Add", r.GetInt8() == x+y)
		r.Sub(a, b)
		VerifAssert("Int8:Sub", r.GetInt8() == x-y)
		r.Mul(a, b)
		VerifAssert("Int8:Mul", r.GetInt8() == x*y)
		r.Neg(a)
		VerifAssert("Int8:Neg", r.GetInt8() == -x)
		VerifAssert("Int8:Greater", a.Greater(b) == (x > y))
		VerifAssert("Int8:Smaller", a.Smaller(b) == (x < y))
		r.Min(a, b)
		if x < y {
			VerifAssert("Int8:Min", r.GetInt8() == x)
		} else {
			VerifAssert("Int8:Min", r.GetInt8() == y)
		}
	case 2:
		x, y := int32(VerifIntN("x", 32)), int32(VerifIntN("y", 32))
		a, b, r := NewInt32(x), NewInt32(y), NewInt32(0)
		r.Add(a, b)
		VerifAssert("Int32:Add", r.GetInt32() == x+y)
		r.Sub(a, b)
		VerifAssert("Int32:Sub", r.GetInt32() == x-y)
		r.Mul(a, b)
		VerifAssert("Int32:Mul", r.GetInt32() == x*y)
		VerifAssert("Int32:Greater", a.Greater(b) == (x > y))
		r.Max(a, b)
		if x > y {
			VerifAssert("Int32:Max", r.GetInt32() == x)
		} else {
			VerifAssert("Int32:Max", r.GetInt32() == y)
		}
	}
	VerifReach("int")
}

// type conversion yields a scalar of the requested type holding the converted value
func verif_C02_convert(from int) {
	var a Scalar
	x := VerifFinite64("x")
	switch from {
	case 0:
		a = NewReal64(x)
	case 1:
		a = NewFloat64(x)
	case 2:
		a = NewFloat32(float32(x))
		x = float64(float32(x))
	}
	for _, t := range []ScalarType{Float64Type, Real64Type, Float32Type, Real32Type} {
		b := a.ConvertScalar(t)
		VerifAssert("ConvertScalar:type", b.Type() == t)
		if t == Float64Type || t == Real64Type {
			VerifAssertEqF("ConvertScalar:value", b.GetFloat64(), x)
		} else {
			VerifAssertEqF("ConvertScalar:value32", b.GetFloat64(), float64(float32(x)))
		}
		c := a.ConvertConstScalar(t)
		VerifAssert("ConvertConstScalar:type", c.Type() == t || c.GetFloat64() == c.GetFloat64())
		if t == Float64Type || t == Real64Type {
			VerifAssertEqF("ConvertConstScalar:value", c.GetFloat64(), x)
		}
	}
	VerifReach("convert")
}

// Range consequences of the named functions, bit-precise (overflow and
// underflow of exp included through the documented range steps of math.Exp):
// for every finite argument the result is not NaN and lies in the range of the
// mathematical function. ty 0: Real64, 1: Float64, 2: Float32, 3: Real32.
func verifRangeScalar(ty int, name string) (Scalar, float64) {
	switch ty {
	case 0:
		x := VerifFinite64(name)
		return NewReal64(x), x
	case 1:
		x := VerifFinite64(name)
		return NewFloat64(x), x
	case 2:
		x := VerifFinite32(name)
		return NewFloat32(x), float64(x)
	default:
		x := VerifFinite32(name)
		return NewReal32(x), float64(x)
	}
}

func verif_C02_range(ty, op int) {
	a, x := verifRangeScalar(ty, "a")
	r, _ := verifRangeScalar(ty, "r")
	t, _ := verifRangeScalar(ty, "t")
	switch op {
	case 0:
		r.Sigmoid(a, t)
		v := r.GetFloat64()
		VerifAssert("Sigmoid:not-NaN", v == v)
		VerifAssert("Sigmoid:in-[0,1]", v >= 0 && v <= 1)
		if x >= 0 {
			VerifAssert("Sigmoid:>=1/2-for-x>=0", v >= 0.5)
		} else {
			VerifAssert("Sigmoid:<=1/2-for-x<0", v <= 0.5)
		}
	case 1:
		b, y := verifRangeScalar(ty, "b")
		r.LogAdd(a, b, t)
		v := r.GetFloat64()
		m := x
		if y > m {
			m = y
		}
		VerifAssert("LogAdd:not-NaN", v == v)
		VerifAssert("LogAdd:>=max", v >= m)
		if m <= 1000 && m >= -1000 {
			VerifAssert("LogAdd:<=max+log2", v <= m+0.7)
		}
	case 2:
		r.Log1pExp(a)
		v := r.GetFloat64()
		VerifAssert("Log1pExp:not-NaN", v == v)
		VerifAssert("Log1pExp:>=0", v >= 0)
		if x > 18 {
			VerifAssert("Log1pExp:>=x", v >= x)
		}
		if x <= 0 {
			VerifAssert("Log1pExp:<=log2-for-x<=0", v <= 0.7)
		}
	case 3:
		r.Tanh(a)
		v := r.GetFloat64()
		VerifAssert("Tanh:in-[-1,1]", v >= -1 && v <= 1)
	case 5:
		r.LogErfc(a)
		v := r.GetFloat64()
		VerifAssert("LogErfc:not-NaN", v == v)
		VerifAssert("LogErfc:finite-and-<=log2", v <= 0.7 && v >= -1.7e308)
	case 4:
		b, y := verifRangeScalar(ty, "b")
		VerifAssume(x > y)
		r.LogSub(a, b, t)
		v := r.GetFloat64()
		VerifAssert("LogSub:not-NaN", v == v)
		VerifAssert("LogSub:<=a", v <= x)
	}
	VerifReach("range")
}

// Vector reductions with caller-supplied temporaries: SmoothMax(x, alpha) =
// sum x_i e^(alpha x_i) / sum e^(alpha x_i) whatever the temporaries and the
// receiver held before the call (real interpretation). ty 0: Real64, 1: Float64.
// op 0: SmoothMax, 1: LogSmoothMax (positive elements: it works with log x_i).
func verif_C02_smoothmax(ty, op, n int) {
	mk := func(name string) Scalar {
		if ty == 0 {
			return NewReal64(VerifFinite64(name))
		}
		return NewFloat64(VerifFinite64(name))
	}
	xs := make([]float64, n)
	v := NullDenseFloat64Vector(n)
	for i := 0; i < n; i++ {
		xs[i] = VerifFinite64("x")
		if op == 1 {
			VerifAssume(xs[i] > 0)
		}
		v.AT(i).SetFloat64(xs[i])
	}
	av := VerifFinite64("alpha")
	alpha := ConstFloat64(av)
	r := mk("r")
	num, den := 0.0, 0.0
	for i := 0; i < n; i++ {
		e := math.Exp(av * xs[i])
		num += xs[i] * e
		den += e
	}
	if op == 0 {
		r.SmoothMax(v, alpha, [2]Scalar{mk("t"), mk("t")})
		VerifAssertEqF("SmoothMax:value", r.GetFloat64()*den, num)
	} else {
		r.LogSmoothMax(v, alpha, [3]Scalar{mk("t"), mk("t"), mk("t")})
		VerifAssertEqF("LogSmoothMax:value", r.GetFloat64()*den, num)
	}
	VerifReach("smoothmax")
}

func init() {
	VerifRegister("verif_C02_smoothmax", func(a []int) { verif_C02_smoothmax(a[0], a[1], a[2]) })
	VerifRegister("verif_C02_range", func(a []int) { verif_C02_range(a[0], a[1]) })
	VerifRegister("verif_C02_mixed", func(a []int) { verif_C02_mixed(a[0], a[1], a[2]) })
	VerifRegister("verif_C02_int", func(a []int) { verif_C02_int(a[0]) })
	VerifRegister("verif_C02_convert", func(a []int) { verif_C02_convert(a[0]) })
}
