package autodiff

// C03: results do not depend on dense or sparse storage. Every operation is run
// with the receiver and operands in the requested storage kinds and compared
// element-wise with the all-dense run on the same symbolic values.

// element states per position, base-4 digits of a pattern: 0 = symbolic
// non-zero, 1 = zero (absent in a sparse container), 2 = explicitly stored
// zero, 3 = value exactly zero carrying a symbolic derivative (magic element
// types; a stored zero otherwise)
func verifDigit(pat, idx int) int {
	for k := 0; k < idx; k++ {
		pat /= 4
	}
	return pat % 4
}

func verifIsSparse(kind int) bool { return kind == 2 || kind == 3 || kind == 6 || kind == 7 }
func verifIsReal(kind int) bool   { return kind == 1 || kind == 3 || kind == 5 || kind == 7 }

// dense twin of a kind (same element type)
func verifDenseOf(kind int) int {
	if verifIsSparse(kind) {
		return kind - 2
	}
	return kind
}

type verifVecVals struct {
	n   int
	x   []float64 // values (0 for zero states)
	st  []int     // state per position
	d   []float64 // one gradient slot per element for Real kinds (N=1)
	has bool
}

func verifVecVals3(kind int, name string, n, pat int, withDeriv bool) *verifVecVals {
	v := &verifVecVals{n: n, x: make([]float64, n), st: make([]int, n), d: make([]float64, n), has: withDeriv}
	for i := 0; i < n; i++ {
		v.st[i] = verifDigit(pat, i)
		if v.st[i] == 0 {
			if verifIs32(kind) {
				v.x[i] = float64(VerifFinite32(name))
			} else {
				v.x[i] = VerifFinite64(name)
			}
			VerifAssume(v.x[i] != 0)
			if withDeriv {
				v.d[i] = verifDerivVal(kind, name+".d")
			}
		}
		if v.st[i] == 3 && withDeriv {
			v.d[i] = verifDerivVal(kind, name+".d")
			VerifAssume(v.d[i] != 0)
		}
	}
	return v
}

func verifSetElem(s Scalar, x, d float64, withDeriv bool) {
	if withDeriv {
		if m, ok := s.(MagicScalar); ok {
			m.SetFloat64(x)
			m.Alloc(1, 1)
			m.SetDerivative(0, d)
			return
		}
	}
	s.SetFloat64(x)
}

func (v *verifVecVals) vector(kind int) Vector {
	r := verifNullVector(kind, v.n)
	wd := v.has && verifIsReal(kind)
	for i := 0; i < v.n; i++ {
		switch v.st[i] {
		case 0:
			verifSetElem(r.At(i), v.x[i], v.d[i], wd)
		case 2:
			r.At(i).SetFloat64(0) // explicit stored zero (creates the entry in sparse storage)
		case 3:
			verifSetElem(r.At(i), 0, v.d[i], wd)
		}
	}
	return r
}

type verifMatVals struct {
	r, c int
	v    *verifVecVals
}

func verifMatVals3(kind int, name string, r, c, pat int, withDeriv bool) *verifMatVals {
	return &verifMatVals{r, c, verifVecVals3(kind, name, r*c, pat, withDeriv)}
}

func (m *verifMatVals) matrix(kind int) Matrix {
	r := verifNullMatrix(kind, m.r, m.c)
	wd := m.v.has && verifIsReal(kind)
	for i := 0; i < m.r; i++ {
		for j := 0; j < m.c; j++ {
			k := i*m.c + j
			switch m.v.st[k] {
			case 0:
				verifSetElem(r.At(i, j), m.v.x[k], m.v.d[k], wd)
			case 2:
				r.At(i, j).SetFloat64(0)
			case 3:
				verifSetElem(r.At(i, j), 0, m.v.d[k], wd)
			}
		}
	}
	return r
}

func verifSameScalar(label string, a, b ConstScalar, real bool) {
	VerifAssertEqF(label+":value", a.GetFloat64(), b.GetFloat64())
	if real {
		VerifAssertEqF(label+":derivative", a.GetDerivative(0), b.GetDerivative(0))
	}
}

func verifSameVectors(label string, a, b ConstVector, real bool) {
	VerifAssert(label+":dim", a.Dim() == b.Dim())
	if a.Dim() != b.Dim() {
		return
	}
	for i := 0; i < a.Dim(); i++ {
		verifSameScalar(label, a.ConstAt(i), b.ConstAt(i), real)
	}
}

func verifSameMatrices(label string, a, b ConstMatrix, real bool) {
	n1, m1 := a.Dims()
	n2, m2 := b.Dims()
	VerifAssert(label+":dims", n1 == n2 && m1 == m2)
	if n1 != n2 || m1 != m2 {
		return
	}
	for i := 0; i < n1; i++ {
		for j := 0; j < m1; j++ {
			verifSameScalar(label, a.ConstAt(i, j), b.ConstAt(i, j), real)
		}
	}
}

// vector operations: receiver kind rk, operand kinds ak, bk; zero patterns pa, pb
// of the operands; pr prior content pattern of the receiver.
func verif_C03_vec(op, rk, ak, bk, n, pa, pb, pr int) {
	real := verifIsReal(rk)
	A := verifVecVals3(ak, "a", n, pa, real)
	B := verifVecVals3(bk, "b", n, pb, real)
	R := verifVecVals3(rk, "r", n, pr, real)
	dk := verifDenseOf(rk)
	r, rd := R.vector(rk), R.vector(dk)
	a, ad := A.vector(ak), A.vector(verifDenseOf(ak))
	b, bd := B.vector(bk), B.vector(verifDenseOf(bk))
	var s float64
	if verifIs32(rk) {
		s = float64(VerifFinite32("s"))
	} else {
		s = VerifFinite64("s")
	}
	t, _ := verifKindType(rk)
	sc := NewScalar(t, 0)
	sc.SetFloat64(s)
	name := ""
	var p1, p2 bool
	switch op {
	case 0:
		name = "VaddV"
		p1 = VerifPanics(func() { r.VaddV(a, b) })
		p2 = VerifPanics(func() { rd.VaddV(ad, bd) })
	case 1:
		name = "VsubV"
		p1 = VerifPanics(func() { r.VsubV(a, b) })
		p2 = VerifPanics(func() { rd.VsubV(ad, bd) })
	case 2:
		name = "VmulV"
		p1 = VerifPanics(func() { r.VmulV(a, b) })
		p2 = VerifPanics(func() { rd.VmulV(ad, bd) })
	case 3:
		name = "VdivV"
		p1 = VerifPanics(func() { r.VdivV(a, b) })
		p2 = VerifPanics(func() { rd.VdivV(ad, bd) })
	case 4:
		name = "VaddS"
		p1 = VerifPanics(func() { r.VaddS(a, sc) })
		p2 = VerifPanics(func() { rd.VaddS(ad, sc) })
	case 5:
		name = "VsubS"
		p1 = VerifPanics(func() { r.VsubS(a, sc) })
		p2 = VerifPanics(func() { rd.VsubS(ad, sc) })
	case 6:
		name = "VmulS"
		p1 = VerifPanics(func() { r.VmulS(a, sc) })
		p2 = VerifPanics(func() { rd.VmulS(ad, sc) })
	case 7:
		name = "VdivS"
		VerifAssume(s != 0)
		p1 = VerifPanics(func() { r.VdivS(a, sc) })
		p2 = VerifPanics(func() { rd.VdivS(ad, sc) })
	case 8:
		name = "Set"
		p1 = VerifPanics(func() { r.Set(a) })
		p2 = VerifPanics(func() { rd.Set(ad) })
	case 9:
		name = "Reset"
		r.Reset()
		rd.Reset()
	case 10: // scalar-valued reductions
		name = "VdotV"
		x1, x2 := NewScalar(t, 0), NewScalar(t, 0)
		p1 = VerifPanics(func() { x1.VdotV(a, b) })
		p2 = VerifPanics(func() { x2.VdotV(ad, bd) })
		VerifAssert(name+":same-panic-behaviour", p1 == p2)
		if !p1 && !p2 {
			verifSameScalar(name, x1, x2, real)
		}
		VerifReach("C03-vec")
		return
	case 11:
		name = "Vmean-Vnorm"
		x1, x2 := NewScalar(t, 0), NewScalar(t, 0)
		x1.Vmean(a)
		x2.Vmean(ad)
		verifSameScalar("Vmean", x1, x2, real)
		x1.Vnorm(a)
		x2.Vnorm(ad)
		verifSameScalar("Vnorm", x1, x2, real)
		VerifReach("C03-vec")
		return
	case 12: // Equals against the other representation
		VerifAssert("Equals:self-other-kind", a.Equals(ad, 1e-10))
		VerifAssert("Equals:other-kind-self", ad.Equals(a, 1e-10))
		x := b.Equals(a, 1e-10)
		y := bd.Equals(ad, 1e-10)
		VerifAssert("Equals:same-verdict", x == y)
		VerifReach("C03-vec")
		return
	case 13: // conversions
		name = "As"
		var c1, c2 Vector
		if verifIsSparse(rk) {
			c1 = AsSparseVector(t, a)
		} else {
			c1 = AsDenseVector(t, a)
		}
		verifSameVectors("As:from-a", c1, ad, real)
		c2 = a.CloneVector()
		verifSameVectors("Clone", c2, ad, real)
		VerifReach("C03-vec")
		return
	default:
		panic("bad op")
	}
	VerifAssert(name+":same-panic-behaviour", p1 == p2)
	if !p1 && !p2 {
		verifSameVectors(name, r, rd, real)
	}
	// operands are read-only
	if rk != ak || true {
		verifSameVectors(name+":operand-a-unchanged", a, ad, real)
	}
	VerifReach("C03-vec")
}

// matrix operations. shapes: A is n x m, B chosen per operation.
func verif_C03_mat(op, rk, ak, bk, n, m, pa, pb, pr int) {
	real := verifIsReal(rk)
	dk := verifDenseOf(rk)
	t, _ := verifKindType(rk)
	name := ""
	var p1, p2 bool
	switch op {
	case 0, 1, 2, 3: // element-wise
		A := verifMatVals3(ak, "a", n, m, pa, real)
		B := verifMatVals3(bk, "b", n, m, pb, real)
		R := verifMatVals3(rk, "r", n, m, pr, real)
		r, rd := R.matrix(rk), R.matrix(dk)
		a, ad := A.matrix(ak), A.matrix(verifDenseOf(ak))
		b, bd := B.matrix(bk), B.matrix(verifDenseOf(bk))
		switch op {
		case 0:
			name = "MaddM"
			p1 = VerifPanics(func() { r.MaddM(a, b) })
			p2 = VerifPanics(func() { rd.MaddM(ad, bd) })
		case 1:
			name = "MsubM"
			p1 = VerifPanics(func() { r.MsubM(a, b) })
			p2 = VerifPanics(func() { rd.MsubM(ad, bd) })
		case 2:
			name = "MmulM"
			p1 = VerifPanics(func() { r.MmulM(a, b) })
			p2 = VerifPanics(func() { rd.MmulM(ad, bd) })
		case 3:
			name = "MdivM"
			p1 = VerifPanics(func() { r.MdivM(a, b) })
			p2 = VerifPanics(func() { rd.MdivM(ad, bd) })
		}
		VerifAssert(name+":same-panic-behaviour", p1 == p2)
		if !p1 && !p2 {
			verifSameMatrices(name, r, rd, real)
		}
	case 4, 5, 6: // scalar broadcast
		A := verifMatVals3(ak, "a", n, m, pa, real)
		R := verifMatVals3(rk, "r", n, m, pr, real)
		r, rd := R.matrix(rk), R.matrix(dk)
		a, ad := A.matrix(ak), A.matrix(verifDenseOf(ak))
		s := VerifFinite64("s")
		if verifIs32(rk) {
			s = float64(float32(s))
		}
		sc := NewScalar(t, 0)
		sc.SetFloat64(s)
		switch op {
		case 4:
			name = "MaddS"
			p1 = VerifPanics(func() { r.MaddS(a, sc) })
			p2 = VerifPanics(func() { rd.MaddS(ad, sc) })
		case 5:
			name = "MmulS"
			p1 = VerifPanics(func() { r.MmulS(a, sc) })
			p2 = VerifPanics(func() { rd.MmulS(ad, sc) })
		case 6:
			name = "MsubS"
			p1 = VerifPanics(func() { r.MsubS(a, sc) })
			p2 = VerifPanics(func() { rd.MsubS(ad, sc) })
		}
		VerifAssert(name+":same-panic-behaviour", p1 == p2)
		if !p1 && !p2 {
			verifSameMatrices(name, r, rd, real)
		}
	case 7: // MdotM: (n x m) . (m x n)
		name = "MdotM"
		A := verifMatVals3(ak, "a", n, m, pa, real)
		B := verifMatVals3(bk, "b", m, n, pb, real)
		R := verifMatVals3(rk, "r", n, n, pr, real)
		r, rd := R.matrix(rk), R.matrix(dk)
		a, ad := A.matrix(ak), A.matrix(verifDenseOf(ak))
		b, bd := B.matrix(bk), B.matrix(verifDenseOf(bk))
		p1 = VerifPanics(func() { r.MdotM(a, b) })
		p2 = VerifPanics(func() { rd.MdotM(ad, bd) })
		VerifAssert(name+":same-panic-behaviour", p1 == p2)
		if !p1 && !p2 {
			verifSameMatrices(name, r, rd, real)
		}
	case 8: // MdotV: (n x m) . m
		name = "MdotV"
		A := verifMatVals3(ak, "a", n, m, pa, real)
		B := verifVecVals3(bk, "b", m, pb, real)
		R := verifVecVals3(rk, "r", n, pr, real)
		r, rd := R.vector(rk), R.vector(dk)
		a, ad := A.matrix(ak), A.matrix(verifDenseOf(ak))
		b, bd := B.vector(bk), B.vector(verifDenseOf(bk))
		p1 = VerifPanics(func() { r.MdotV(a, b) })
		p2 = VerifPanics(func() { rd.MdotV(ad, bd) })
		VerifAssert(name+":same-panic-behaviour", p1 == p2)
		if !p1 && !p2 {
			verifSameVectors(name, r, rd, real)
		}
	case 9: // VdotM: n . (n x m)
		name = "VdotM"
		A := verifVecVals3(ak, "a", n, pa, real)
		B := verifMatVals3(bk, "b", n, m, pb, real)
		R := verifVecVals3(rk, "r", m, pr, real)
		r, rd := R.vector(rk), R.vector(dk)
		a, ad := A.vector(ak), A.vector(verifDenseOf(ak))
		b, bd := B.matrix(bk), B.matrix(verifDenseOf(bk))
		p1 = VerifPanics(func() { r.VdotM(a, b) })
		p2 = VerifPanics(func() { rd.VdotM(ad, bd) })
		VerifAssert(name+":same-panic-behaviour", p1 == p2)
		if !p1 && !p2 {
			verifSameVectors(name, r, rd, real)
		}
	case 10: // Outer: n (x) m
		name = "Outer"
		A := verifVecVals3(ak, "a", n, pa, real)
		B := verifVecVals3(bk, "b", m, pb, real)
		R := verifMatVals3(rk, "r", n, m, pr, real)
		r, rd := R.matrix(rk), R.matrix(dk)
		a, ad := A.vector(ak), A.vector(verifDenseOf(ak))
		b, bd := B.vector(bk), B.vector(verifDenseOf(bk))
		p1 = VerifPanics(func() { r.Outer(a, b) })
		p2 = VerifPanics(func() { rd.Outer(ad, bd) })
		VerifAssert(name+":same-panic-behaviour", p1 == p2)
		if !p1 && !p2 {
			verifSameMatrices(name, r, rd, real)
		}
	case 11: // Set from the other representation
		name = "Set"
		A := verifMatVals3(ak, "a", n, m, pa, real)
		R := verifMatVals3(rk, "r", n, m, pr, real)
		r, rd := R.matrix(rk), R.matrix(dk)
		a, ad := A.matrix(ak), A.matrix(verifDenseOf(ak))
		p1 = VerifPanics(func() { r.Set(a) })
		p2 = VerifPanics(func() { rd.Set(ad) })
		VerifAssert(name+":same-panic-behaviour", p1 == p2)
		if !p1 && !p2 {
			verifSameMatrices(name, r, rd, real)
		}
	case 12: // SetIdentity / Reset
		R := verifMatVals3(rk, "r", n, m, pr, real)
		r, rd := R.matrix(rk), R.matrix(dk)
		r.SetIdentity()
		rd.SetIdentity()
		verifSameMatrices("SetIdentity", r, rd, real)
		r2, rd2 := R.matrix(rk), R.matrix(dk)
		r2.Reset()
		rd2.Reset()
		verifSameMatrices("Reset", r2, rd2, real)
	case 13: // Equals, conversions, trace/norm
		A := verifMatVals3(ak, "a", n, m, pa, real)
		a, ad := A.matrix(ak), A.matrix(verifDenseOf(ak))
		VerifAssert("Equals:self-other-kind", a.Equals(ad, 1e-10))
		VerifAssert("Equals:other-kind-self", ad.Equals(a, 1e-10))
		var c1 Matrix
		if verifIsSparse(rk) {
			c1 = AsSparseMatrix(t, a)
		} else {
			c1 = AsDenseMatrix(t, a)
		}
		verifSameMatrices("As", c1, ad, real)
		verifSameMatrices("Clone", a.CloneMatrix(), ad, real)
		x1, x2 := NewScalar(t, 0), NewScalar(t, 0)
		x1.Mnorm(a)
		x2.Mnorm(ad)
		verifSameScalar("Mnorm", x1, x2, real)
		if n == m {
			x1.Mtrace(a)
			x2.Mtrace(ad)
			verifSameScalar("Mtrace", x1, x2, real)
		}
	default:
		panic("bad op")
	}
	VerifReach("C03-mat")
}

// constructors from index / value lists preserve every element
func verif_C03_ctor(kind, n, pa int) {
	A := verifVecVals3(kind, "a", n, pa, false)
	var idx []int
	var val []float64
	for i := n - 1; i >= 0; i-- { // unsorted on purpose
		if A.st[i] != 1 {
			idx = append(idx, i)
			val = append(val, A.x[i])
		}
	}
	t, _ := verifKindType(kind)
	var v ConstVector
	switch t {
	case Float64Type:
		v = NewSparseFloat64Vector(idx, val, n)
	case Real64Type:
		v = NewSparseReal64Vector(idx, val, n)
	default:
		return
	}
	for i := 0; i < n; i++ {
		VerifAssertEqF("NewSparseVector:elem", v.Float64At(i), A.x[i])
	}
	if t == Float64Type {
		idx2 := append([]int{}, idx...)
		val2 := append([]float64{}, val...)
		c := NewSparseConstFloat64Vector(idx2, val2, n)
		for i := 0; i < n; i++ {
			VerifAssertEqF("NewSparseConstVector:elem", c.Float64At(i), A.x[i])
		}
	}
	VerifReach("C03-ctor")
}

func init() {
	VerifRegister("verif_C03_vec", func(a []int) { verif_C03_vec(a[0], a[1], a[2], a[3], a[4], a[5], a[6], a[7]) })
	VerifRegister("verif_C03_mat", func(a []int) { verif_C03_mat(a[0], a[1], a[2], a[3], a[4], a[5], a[6], a[7], a[8]) })
	VerifRegister("verif_C03_ctor", func(a []int) { verif_C03_ctor(a[0], a[1], a[2]) })
}

// a derivative value that the element type of kind represents exactly
func verifDerivVal(kind int, name string) float64 {
	if verifIs32(kind) {
		return float64(VerifFinite32(name))
	}
	return VerifFinite64(name)
}
