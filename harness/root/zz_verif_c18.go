package autodiff

import "encoding/json"

// C18: JSON round trips (under the JSON data-model stub when executed
// symbolically, through encoding/json natively) and malformed documents.

func verifRT(label string, src json.Marshaler, dst json.Unmarshaler) bool {
	b, err := json.Marshal(src)
	VerifAssert(label+":marshal-no-error", err == nil)
	if err != nil {
		return false
	}
	err = dst.UnmarshalJSON(b)
	VerifAssert(label+":unmarshal-no-error", err == nil)
	return err == nil
}

// dense vectors are slice types whose UnmarshalJSON has a pointer receiver
func verifDecodeVector(kind int, data []byte) (Vector, error) {
	switch kind {
	case 0:
		v := DenseFloat64Vector{}
		err := json.Unmarshal(data, &v)
		return v, err
	case 1:
		v := DenseReal64Vector{}
		err := json.Unmarshal(data, &v)
		return v, err
	case 4:
		v := DenseFloat32Vector{}
		err := json.Unmarshal(data, &v)
		return v, err
	case 5:
		v := DenseReal32Vector{}
		err := json.Unmarshal(data, &v)
		return v, err
	}
	v := verifNullVector(kind, 0)
	err := json.Unmarshal(data, v)
	return v, err
}

func verif_C18_scalar(kind int) {
	switch kind {
	case 0:
		x := VerifFinite64("x")
		a := NewFloat64(x)
		b := NewFloat64(0)
		if verifRT("Float64", a, b) {
			VerifAssertSameBits("Float64:value", b.GetFloat64(), x)
		}
	case 1: // Real64 with first and second derivatives
		a := verifFiniteJet(2, 2)
		b := NewReal64(0)
		if verifRT("Real64", a, b) {
			VerifAssertSameBits("Real64:value", b.GetFloat64(), a.GetFloat64())
			for i := 0; i < 2; i++ {
				VerifAssertEqF("Real64:derivative", b.GetDerivative(i), a.GetDerivative(i))
				for k := 0; k < 2; k++ {
					VerifAssertEqF("Real64:hessian", b.GetHessian(i, k), a.GetHessian(i, k))
				}
			}
		}
	case 2: // Real64 with first derivatives only
		a := verifFiniteJet(2, 1)
		b := NewReal64(0)
		if verifRT("Real64-order1", a, b) {
			VerifAssertSameBits("Real64-order1:value", b.GetFloat64(), a.GetFloat64())
			for i := 0; i < 2; i++ {
				VerifAssertEqF("Real64-order1:derivative", b.GetDerivative(i), a.GetDerivative(i))
			}
		}
	case 3:
		x := VerifFinite64("x")
		a := NewConstFloat64(x)
		b := NewFloat64(0)
		if verifRT("ConstFloat64", a, b) {
			VerifAssertSameBits("ConstFloat64:value", b.GetFloat64(), x)
		}
	case 4:
		x := VerifAnyInt("x")
		a := NewInt(x)
		b := NewInt(0)
		if verifRT("Int", a, b) {
			VerifAssert("Int:value", b.GetInt() == x)
		}
	case 5:
		x := VerifFinite32("x")
		a := NewFloat32(x)
		b := NewFloat32(0)
		if verifRT("Float32", a, b) {
			VerifAssertSameBits("Float32:value", b.GetFloat64(), float64(x))
		}
	}
	VerifReach("C18-scalar")
}

func verifFiniteJet(n, order int) *Real64 {
	a := NewReal64(VerifFinite64("x"))
	a.Alloc(n, order)
	for i := 0; i < n; i++ {
		a.Derivative[i] = VerifFinite64("x.d")
		if order >= 2 {
			for k := i; k < n; k++ {
				h := VerifFinite64("x.h")
				a.Hessian[i][k] = h
				a.Hessian[k][i] = h
			}
		}
	}
	return a
}

func verif_C18_vector(kind, n, pa int) {
	real := verifIsReal(kind)
	A := verifVecVals3(kind, "a", n, pa, real)
	a := A.vector(kind)
	data, err := json.Marshal(a)
	VerifAssert("vector:marshal-no-error", err == nil)
	if err == nil {
		b, err2 := verifDecodeVector(kind, data)
		VerifAssert("vector:unmarshal-no-error", err2 == nil)
		if err2 == nil {
			VerifAssert("vector:dim", b.Dim() == n)
			if b.Dim() == n {
				for i := 0; i < n; i++ {
					VerifAssertSameBits("vector:value", b.Float64At(i), A.x[i])
					// the sparse formats carry values only
					if real && !verifIsSparse(kind) && A.st[i] == 0 {
						VerifAssertEqF("vector:derivative", b.ConstAt(i).GetDerivative(0), A.d[i])
					}
				}
			}
		}
	}
	VerifReach("C18-vector")
}

func verif_C18_matrix(kind, viewKind, pa int) {
	real := verifIsReal(kind)
	PV := verifMatVals3(kind, "v", 3, 3, pa, real)
	parent := PV.matrix(kind)
	E := make([][]float64, 3)
	for i := range E {
		E[i] = PV.v.x[i*3 : i*3+3]
	}
	v := verifMkView(parent, verifCopyE(E), viewKind)
	n, m := v.dims()
	b := verifNullMatrix(kind, 0, 0)
	if verifRT("matrix", v.m, b.(json.Unmarshaler)) {
		n1, n2 := b.Dims()
		VerifAssert("matrix:dims", n1 == n && n2 == m)
		if n1 == n && n2 == m {
			for i := 0; i < n; i++ {
				for j := 0; j < m; j++ {
					VerifAssertSameBits("matrix:value", b.Float64At(i, j), v.E[i][j])
				}
			}
			// non-zero positions
			cnt, want := 0, 0
			for i := 0; i < n; i++ {
				for j := 0; j < m; j++ {
					if v.E[i][j] != 0 {
						want++
					}
				}
			}
			for it := b.ConstIterator(); it.Ok(); it.Next() {
				cnt++
				if cnt > n*m+2 {
					break
				}
			}
			VerifAssert("matrix:nonzero-count", cnt == want)
		}
	}
	VerifReach("C18-matrix")
}

type verifDenseMatDoc struct {
	Values []float64
	Rows   int
	Cols   int
}

type verifSparseVecDoc struct {
	Index  []int
	Value  []float64
	Length int
}

type verifRealDoc struct {
	Value      float64
	Derivative []float64
	Hessian    [][]float64
}

// documents that no writer produces: the reader must answer with an error or
// leave an object whose dimensions are what it reports and whose in-range reads
// succeed.
func verif_C18_malformed(which, a1, a2 int) {
	switch which {
	case 0: // dense matrix: len(Values) != Rows*Cols
		d := verifDenseMatDoc{Rows: a1, Cols: a2}
		nv := VerifChoice("nvalues", 7)
		for i := 0; i < nv; i++ {
			d.Values = append(d.Values, VerifFinite64("v"))
		}
		b, _ := json.Marshal(d)
		m := NullDenseFloat64Matrix(1, 1)
		err := json.Unmarshal(b, m)
		if err == nil {
			n1, n2 := m.Dims()
			VerifAssert("dense-matrix:dims-as-documented", n1 == a1 && n2 == a2)
			crashed := VerifPanics(func() {
				for i := 0; i < n1; i++ {
					for j := 0; j < n2; j++ {
						m.Float64At(i, j)
					}
				}
			})
			VerifAssert("dense-matrix:malformed-accepted-then-read-crashes", !crashed)
		}
	case 1: // sparse vector: index out of range / duplicate / length mismatch
		d := verifSparseVecDoc{Length: a1}
		ni := VerifChoice("nindex", 3)
		for i := 0; i < ni; i++ {
			d.Index = append(d.Index, VerifChoice("idx", 4)-1)
		}
		nv := VerifChoice("nvalue", 3)
		for i := 0; i < nv; i++ {
			x := VerifFinite64("v")
			VerifAssume(x != 0)
			d.Value = append(d.Value, x)
		}
		b, _ := json.Marshal(d)
		v := NullSparseFloat64Vector(1)
		var err error
		crashedReader := VerifPanics(func() { err = json.Unmarshal(b, v) })
		VerifAssert("sparse-vector:reader-crashes", !crashedReader)
		if !crashedReader && err == nil {
			VerifAssert("sparse-vector:dim-as-documented", v.Dim() == a1)
			crashed := VerifPanics(func() {
				for i := 0; i < v.Dim(); i++ {
					v.Float64At(i)
				}
				for it := v.ConstIterator(); it.Ok(); it.Next() {
				}
			})
			VerifAssert("sparse-vector:malformed-accepted-then-read-crashes", !crashed)
		}
	case 2: // Real64: derivative / Hessian sizes disagree
		d := verifRealDoc{Value: VerifFinite64("x")}
		nd := VerifChoice("nd", 3)
		for i := 0; i < nd; i++ {
			d.Derivative = append(d.Derivative, VerifFinite64("d"))
		}
		nh := VerifChoice("nh", 3)
		for i := 0; i < nh; i++ {
			row := []float64{}
			nr := VerifChoice("nr", 3)
			for k := 0; k < nr; k++ {
				row = append(row, VerifFinite64("h"))
			}
			d.Hessian = append(d.Hessian, row)
		}
		b, _ := json.Marshal(d)
		r := NewReal64(0)
		err := json.Unmarshal(b, r)
		if err == nil {
			crashed := VerifPanics(func() {
				for i := 0; i < r.GetN(); i++ {
					r.GetDerivative(i)
					for k := 0; k < r.GetN(); k++ {
						r.GetHessian(i, k)
					}
				}
			})
			VerifAssert("Real64:malformed-accepted-then-read-crashes", !crashed)
		}
	case 3: // wrong kinds
		b, _ := json.Marshal("not a matrix")
		m := NullDenseFloat64Matrix(1, 1)
		VerifAssert("dense-matrix:string-document-rejected", json.Unmarshal(b, m) != nil)
		v := NullSparseFloat64Vector(1)
		VerifAssert("sparse-vector:string-document-rejected", json.Unmarshal(b, v) != nil)
	}
	VerifReach("C18-malformed")
}

func init() {
	VerifRegister("verif_C18_scalar", func(a []int) { verif_C18_scalar(a[0]) })
	VerifRegister("verif_C18_vector", func(a []int) { verif_C18_vector(a[0], a[1], a[2]) })
	VerifRegister("verif_C18_matrix", func(a []int) { verif_C18_matrix(a[0], a[1], a[2]) })
	VerifRegister("verif_C18_malformed", func(a []int) { verif_C18_malformed(a[0], a[1], a[2]) })
}
