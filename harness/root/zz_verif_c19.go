package autodiff

// C19 harnesses: one Insert/Delete (and live iteration around it) from every
// AVL shape up to a height bound, keys symbolic.

type verifShape struct {
	l, r *verifShape
	h    int
}

// verifAvlShapes returns all AVL shapes of exactly height h (nil = empty, h=0).
func verifAvlShapes(h int) []*verifShape {
	if h == 0 {
		return []*verifShape{nil}
	}
	if h == 1 {
		return []*verifShape{{nil, nil, 1}}
	}
	a := verifAvlShapes(h - 1)
	b := verifAvlShapes(h - 2)
	var out []*verifShape
	for _, x := range a {
		for _, y := range a {
			out = append(out, &verifShape{x, y, h})
		}
	}
	for _, x := range a {
		for _, y := range b {
			out = append(out, &verifShape{x, y, h})
			out = append(out, &verifShape{y, x, h})
		}
	}
	return out
}

func verifShapeByIndex(idx int) *verifShape {
	for h := 0; h <= 4; h++ {
		s := verifAvlShapes(h)
		if idx < len(s) {
			return s[idx]
		}
		idx -= len(s)
	}
	panic("shape index out of range")
}

func verifShapeSize(s *verifShape) int {
	if s == nil {
		return 0
	}
	return 1 + verifShapeSize(s.l) + verifShapeSize(s.r)
}

func verifShapeHeight(s *verifShape) int {
	if s == nil {
		return 0
	}
	return s.h
}

// verifBuild builds the literal tree for shape s with in-order keys keys[*pos...].
func verifBuild(s *verifShape, keys []int, pos *int, parent *AvlNode, nodes *[]*AvlNode) *AvlNode {
	if s == nil {
		return nil
	}
	n := &AvlNode{}
	n.Parent = parent
	n.Left = verifBuild(s.l, keys, pos, n, nodes)
	n.Value = keys[*pos]
	*pos++
	*nodes = append(*nodes, n)
	n.Right = verifBuild(s.r, keys, pos, n, nodes)
	n.Balance = verifShapeHeight(s.r) - verifShapeHeight(s.l)
	return n
}

// verifKeys returns n symbolic keys, strictly ascending.
func verifKeys(n int) []int {
	keys := make([]int, n)
	for i := 0; i < n; i++ {
		keys[i] = VerifAnyInt("key")
		if i > 0 {
			VerifAssume(keys[i-1] < keys[i])
		}
	}
	return keys
}

// verifCheckTree checks the structural invariants and returns height; the
// in-order values are appended to out.
func verifCheckTree(n *AvlNode, parent *AvlNode, out *[]int) int {
	if n == nil {
		return 0
	}
	VerifAssert("parent-link", n.Parent == parent)
	VerifAssert("live-node-not-deleted", !n.Deleted)
	hl := verifCheckTree(n.Left, n, out)
	*out = append(*out, n.Value)
	hr := verifCheckTree(n.Right, n, out)
	d := hr - hl
	VerifAssert("height-balanced", d >= -1 && d <= 1)
	VerifAssert("balance-factor", n.Balance == d)
	if hl > hr {
		return hl + 1
	}
	return hr + 1
}

func verifReachable(n *AvlNode, set map[*AvlNode]bool) {
	if n == nil {
		return
	}
	set[n] = true
	verifReachable(n.Left, set)
	verifReachable(n.Right, set)
}

func verifMember(keys []int, k int) bool {
	r := false
	for _, x := range keys {
		if x == k {
			r = true
		}
	}
	return r
}

// verifExpected computes the updated sorted key list.
func verifExpected(keys []int, k int, insert bool) []int {
	var out []int
	if insert {
		done := false
		for _, x := range keys {
			if !done && k < x {
				out = append(out, k)
				done = true
			}
			if x == k {
				done = true
			}
			out = append(out, x)
		}
		if !done {
			out = append(out, k)
		}
	} else {
		for _, x := range keys {
			if x != k {
				out = append(out, x)
			}
		}
	}
	return out
}

func verifCheckSet(tree *AvlTree, exp []int) {
	var got []int
	verifCheckTree(tree.Root, nil, &got)
	VerifAssert("inorder-length", len(got) == len(exp))
	if len(got) == len(exp) {
		for i := range got {
			VerifAssert("inorder-equals-set", got[i] == exp[i])
		}
	}
	// membership through the public lookup, for every member
	for _, x := range exp {
		VerifAssert("member-found", tree.FindNode(x) != nil)
	}
	// ascending iteration through the public iterator
	i := 0
	for it := tree.Iterator(); it.Ok(); it.Next() {
		if i < len(exp) {
			VerifAssert("iterate-equals-set", it.Get() == exp[i])
		}
		i++
		if i > len(exp)+2 {
			break
		}
	}
	VerifAssert("iterate-length", i == len(exp))
}

// verif_C19_step: op 0 = Insert, 1 = Delete, from shape index `shape`.
func verif_C19_step(shape, op int) {
	s := verifShapeByIndex(shape)
	n := verifShapeSize(s)
	keys := verifKeys(n)
	pos := 0
	var nodes []*AvlNode
	tree := &AvlTree{}
	tree.Root = verifBuild(s, keys, &pos, nil, &nodes)
	k := VerifAnyInt("k")
	was := verifMember(keys, k)
	var changed bool
	if op == 0 {
		changed = tree.Insert(k)
		VerifAssert("insert-reports-change", changed == !was)
	} else {
		changed = tree.Delete(k)
		VerifAssert("delete-reports-change", changed == was)
	}
	VerifReach("after-op")
	exp := verifExpected(keys, k, op == 0)
	verifCheckSet(tree, exp)
	VerifAssert("absent-not-found", op == 0 || tree.FindNode(k) == nil)
	// nodes of the pre-state that left the tree carry the Deleted mark
	live := map[*AvlNode]bool{}
	verifReachable(tree.Root, live)
	for _, nd := range nodes {
		if !live[nd] {
			VerifAssert("detached-node-marked-deleted", nd.Deleted)
		}
	}
}

// verif_C19_probe: membership of an arbitrary probe key after the operation.
func verif_C19_probe(shape, op int) {
	s := verifShapeByIndex(shape)
	n := verifShapeSize(s)
	keys := verifKeys(n)
	pos := 0
	var nodes []*AvlNode
	tree := &AvlTree{}
	tree.Root = verifBuild(s, keys, &pos, nil, &nodes)
	k := VerifAnyInt("k")
	if op == 0 {
		tree.Insert(k)
	} else {
		tree.Delete(k)
	}
	exp := verifExpected(keys, k, op == 0)
	q := VerifAnyInt("q")
	VerifAssert("probe-membership", (tree.FindNode(q) != nil) == verifMember(exp, q))
	VerifReach("after-probe")
}

// verif_C19_iter: iterator advanced j times (from start, or from a lower bound
// when from=1), then one mutation, then iterate to the end.
func verif_C19_iter(shape, op, j, from int) {
	s := verifShapeByIndex(shape)
	n := verifShapeSize(s)
	keys := verifKeys(n)
	pos := 0
	var nodes []*AvlNode
	tree := &AvlTree{}
	tree.Root = verifBuild(s, keys, &pos, nil, &nodes)
	var it *AvlIterator
	if from == 1 {
		lb := VerifAnyInt("lb")
		it = tree.IteratorFrom(lb)
		// the iterator starts at the smallest member >= lb
		var want []int
		for _, x := range keys {
			if x >= lb {
				want = append(want, x)
			}
		}
		VerifAssert("from-ok", it.Ok() == (len(want) > 0))
		if it.Ok() && len(want) > 0 {
			VerifAssert("from-start", it.Get() == want[0])
		}
	} else {
		it = tree.Iterator()
	}
	for i := 0; i < j && it.Ok(); i++ {
		it.Next()
	}
	if !it.Ok() {
		return
	}
	cur := it.Get()
	k := VerifAnyInt("k")
	if op == 0 {
		tree.Insert(k)
	} else {
		tree.Delete(k)
	}
	after := verifExpected(keys, k, op == 0)
	VerifReach("mutated-under-iterator")
	// remaining output
	var got []int
	for it.Next(); it.Ok(); it.Next() {
		got = append(got, it.Get())
		if len(got) > n+3 {
			break
		}
	}
	prev := cur
	for _, g := range got {
		VerifAssert("iter-ascending", g > prev)
		VerifAssert("iter-member", verifMember(after, g))
		prev = g
	}
	// every key that was there before, survived, and is larger than the cursor
	for _, x := range keys {
		if x > cur && verifMember(after, x) {
			VerifAssert("iter-visits-survivor", verifMember(got, x))
		}
	}
}

// verif_C19_iter2: two mutations between two Next() calls. seq 0: Delete(k1)
// then Insert(k2); seq 1: Insert(k1) then Delete(k2); same=1 constrains k2 == k1
// (delete and re-insert the same key, e.g. the one under the cursor).
func verif_C19_iter2(shape, j, seq, same int) {
	s := verifShapeByIndex(shape)
	n := verifShapeSize(s)
	keys := verifKeys(n)
	pos := 0
	var nodes []*AvlNode
	tree := &AvlTree{}
	tree.Root = verifBuild(s, keys, &pos, nil, &nodes)
	it := tree.Iterator()
	for i := 0; i < j && it.Ok(); i++ {
		it.Next()
	}
	if !it.Ok() {
		return
	}
	cur := it.Get()
	k1 := VerifAnyInt("k1")
	k2 := k1
	if same == 0 {
		k2 = VerifAnyInt("k2")
	}
	var mid []int
	if seq == 0 {
		tree.Delete(k1)
		mid = verifExpected(keys, k1, false)
		tree.Insert(k2)
	} else {
		tree.Insert(k1)
		mid = verifExpected(keys, k1, true)
		tree.Delete(k2)
	}
	after := verifExpected(mid, k2, seq == 0)
	VerifReach("mutated-twice-under-iterator")
	var got []int
	for it.Next(); it.Ok(); it.Next() {
		got = append(got, it.Get())
		if len(got) > n+4 {
			break
		}
	}
	prev := cur
	for _, g := range got {
		VerifAssert("iter2-ascending", g > prev)
		VerifAssert("iter2-member", verifMember(after, g))
		prev = g
	}
	for _, x := range keys {
		if x > cur && x != k1 && x != k2 {
			VerifAssert("iter2-visits-untouched-survivor", verifMember(got, x))
		}
	}
	var all []int
	verifCheckTree(tree.Root, nil, &all)
}

// verif_C19_reach: the literal pre-state is what public Insert calls build
// (keys inserted level by level never trigger a rotation).
func verif_C19_reach(shape int) {
	s := verifShapeByIndex(shape)
	n := verifShapeSize(s)
	keys := verifKeys(n)
	pos := 0
	var nodes []*AvlNode
	lit := verifBuild(s, keys, &pos, nil, &nodes)
	tree := NewAvlTree()
	queue := []*AvlNode{lit}
	for len(queue) > 0 {
		x := queue[0]
		queue = queue[1:]
		if x == nil {
			continue
		}
		VerifAssert("level-insert-changes", tree.Insert(x.Value))
		queue = append(queue, x.Left, x.Right)
	}
	verifSameTree(lit, tree.Root)
	VerifReach("built")
}

func verifSameTree(a, b *AvlNode) {
	VerifAssert("same-shape", (a == nil) == (b == nil))
	if a == nil || b == nil {
		return
	}
	VerifAssert("same-key", a.Value == b.Value)
	VerifAssert("same-balance", a.Balance == b.Balance)
	verifSameTree(a.Left, b.Left)
	verifSameTree(a.Right, b.Right)
}

// verif_C19_clone: a clone is structurally equal and disjoint.
func verif_C19_clone(shape, op int) {
	s := verifShapeByIndex(shape)
	n := verifShapeSize(s)
	keys := verifKeys(n)
	pos := 0
	var nodes []*AvlNode
	tree := &AvlTree{}
	tree.Root = verifBuild(s, keys, &pos, nil, &nodes)
	c := tree.Clone()
	verifSameTree(tree.Root, c.Root)
	live := map[*AvlNode]bool{}
	verifReachable(tree.Root, live)
	live2 := map[*AvlNode]bool{}
	verifReachable(c.Root, live2)
	for nd := range live2 {
		VerifAssert("clone-disjoint", !live[nd])
	}
	k := VerifAnyInt("k")
	if op == 0 {
		c.Insert(k)
	} else {
		c.Delete(k)
	}
	verifCheckSet(tree, keys)
	verifCheckSet(c, verifExpected(keys, k, op == 0))
}

func init() {
	VerifRegister("verif_C19_step", func(a []int) { verif_C19_step(a[0], a[1]) })
	VerifRegister("verif_C19_probe", func(a []int) { verif_C19_probe(a[0], a[1]) })
	VerifRegister("verif_C19_iter", func(a []int) { verif_C19_iter(a[0], a[1], a[2], a[3]) })
	VerifRegister("verif_C19_iter2", func(a []int) { verif_C19_iter2(a[0], a[1], a[2], a[3]) })
	VerifRegister("verif_C19_reach", func(a []int) { verif_C19_reach(a[0]) })
	VerifRegister("verif_C19_clone", func(a []int) { verif_C19_clone(a[0], a[1]) })
}
