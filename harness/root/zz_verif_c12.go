package autodiff

// C12: clones and As-conversions are deep copies; read-only operands are left
// unchanged.

func verifSnapVec(v ConstVector, real bool) ([]float64, []float64) {
	x := make([]float64, v.Dim())
	d := make([]float64, v.Dim())
	for i := range x {
		x[i] = v.Float64At(i)
		if real {
			d[i] = v.ConstAt(i).GetDerivative(0)
		}
	}
	return x, d
}

func verifSameSnapVec(label string, v ConstVector, x, d []float64, real bool) {
	VerifAssert(label+":dim", v.Dim() == len(x))
	if v.Dim() != len(x) {
		return
	}
	for i := range x {
		VerifAssertSameBits(label+":value", v.Float64At(i), x[i])
		if real {
			VerifAssertEqF(label+":derivative", v.ConstAt(i).GetDerivative(0), d[i])
		}
	}
}

func verifSnapMat(m ConstMatrix, real bool) ([][]float64, [][]float64) {
	r, c := m.Dims()
	x := make([][]float64, r)
	d := make([][]float64, r)
	for i := 0; i < r; i++ {
		x[i] = make([]float64, c)
		d[i] = make([]float64, c)
		for j := 0; j < c; j++ {
			x[i][j] = m.Float64At(i, j)
			if real {
				d[i][j] = m.ConstAt(i, j).GetDerivative(0)
			}
		}
	}
	return x, d
}

func verifSameSnapMat(label string, m ConstMatrix, x, d [][]float64, real bool) {
	r, c := m.Dims()
	VerifAssert(label+":rows", r == len(x))
	if r != len(x) {
		return
	}
	for i := 0; i < r; i++ {
		VerifAssert(label+":cols", c == len(x[i]))
		if c != len(x[i]) {
			return
		}
		for j := 0; j < c; j++ {
			VerifAssertSameBits(label+":value", m.Float64At(i, j), x[i][j])
			if real {
				VerifAssertEqF(label+":derivative", m.ConstAt(i, j).GetDerivative(0), d[i][j])
			}
		}
	}
}

// verifNZ draws a finite non-zero value (keeps the structure of sparse
// containers concrete after a write)
func verifNZ(name string) float64 {
	x := VerifFinite64(name)
	VerifAssume(x != 0)
	return x
}

// vector clones / conversions. how: 0 CloneVector, 1 CloneConstVector (then
// converted back for mutation through AsDense/AsSparse), 2 As-conversion to the
// same storage kind, 3 As-conversion to the other storage kind
func verif_C12_vec(kind, how, n, pa int) {
	real := verifIsReal(kind)
	A := verifVecVals3(kind, "a", n, pa, real)
	src := A.vector(kind)
	t, sparse := verifKindType(kind)
	var c Vector
	switch how {
	case 0:
		c = src.CloneVector()
	case 1:
		cc := src.CloneConstVector()
		x0, d0 := verifSnapVec(src, real)
		verifSameSnapVec("CloneConstVector:equal", cc, x0, d0, real)
		c = src.CloneVector()
	case 2:
		if sparse {
			c = AsSparseVector(t, src)
		} else {
			c = AsDenseVector(t, src)
		}
	case 3:
		if sparse {
			c = AsDenseVector(t, src)
		} else {
			c = AsSparseVector(t, src)
		}
	}
	x0, d0 := verifSnapVec(src, real)
	verifSameSnapVec("clone:equal-to-source", c, x0, d0, real)
	// mutate the clone: every position gets a new symbolic value
	for i := 0; i < n; i++ {
		w := verifNZ("w")
		verifSetElem(c.At(i), w, VerifFinite64("w.d"), real)
	}
	verifSameSnapVec("source-unchanged-by-clone-mutation", src, x0, d0, real)
	// and the other direction
	xc, dc := verifSnapVec(c, real)
	for i := 0; i < n; i++ {
		w := verifNZ("u")
		verifSetElem(src.At(i), w, VerifFinite64("u.d"), real)
	}
	src.Reset()
	verifSameSnapVec("clone-unchanged-by-source-mutation", c, xc, dc, real)
	VerifReach("C12-vec")
}

func verif_C12_mat(kind, how, viewKind, pa int) {
	real := verifIsReal(kind)
	PV := verifMatVals3(kind, "v", 3, 3, pa, real)
	parent := PV.matrix(kind)
	E := make([][]float64, 3)
	for i := range E {
		E[i] = PV.v.x[i*3 : i*3+3]
	}
	v := verifMkView(parent, verifCopyE(E), viewKind)
	n, m := v.dims()
	t, sparse := verifKindType(kind)
	var c Matrix
	switch how {
	case 0:
		c = v.m.CloneMatrix()
	case 1:
		x0, d0 := verifSnapMat(v.m, real)
		verifSameSnapMat("CloneConstMatrix:equal", v.m.CloneConstMatrix(), x0, d0, real)
		c = v.m.CloneMatrix()
	case 2:
		if sparse {
			c = AsSparseMatrix(t, v.m)
		} else {
			c = AsDenseMatrix(t, v.m)
		}
	case 3:
		if sparse {
			c = AsDenseMatrix(t, v.m)
		} else {
			c = AsSparseMatrix(t, v.m)
		}
	}
	x0, d0 := verifSnapMat(v.m, real)
	verifSameSnapMat("clone:equal-to-source", c, x0, d0, real)
	verifSameElems("clone:equal-to-definition", c, v.E)
	p0, pd0 := verifSnapMat(parent, real)
	for i := 0; i < n; i++ {
		for j := 0; j < m; j++ {
			verifSetElem(c.At(i, j), verifNZ("w"), VerifFinite64("w.d"), real)
		}
	}
	c.Reset()
	verifSameSnapMat("source-unchanged-by-clone-mutation", v.m, x0, d0, real)
	verifSameSnapMat("parent-unchanged-by-clone-mutation", parent, p0, pd0, real)
	c2 := v.m.CloneMatrix()
	xc, dc := verifSnapMat(c2, real)
	for i := 0; i < n; i++ {
		for j := 0; j < m; j++ {
			verifSetElem(v.m.At(i, j), verifNZ("u"), VerifFinite64("u.d"), real)
		}
	}
	verifSameSnapMat("clone-unchanged-by-source-mutation", c2, xc, dc, real)
	VerifReach("C12-mat")
}

// scalars: Clone / CloneScalar / CloneMagicScalar of a Real with full jets
func verif_C12_scalar(which int) {
	j := verifJetValsReal64("a", 2, 2)
	a := j.mk()
	var c *Real64
	switch which {
	case 0:
		c = a.Clone()
	case 1:
		c = a.CloneScalar().(*Real64)
	case 2:
		c = a.CloneMagicScalar().(*Real64)
	case 3:
		c = a.CloneConstScalar().(*Real64)
	case 4: // assignments copy: the target is as independent of the source as a clone
		c = NewReal64(0)
		c.Set(a)
	case 5:
		c = NewReal64(0)
		c.SET(a)
	case 6: // operations that hand an operand through (copy of the larger / the absolute value)
		c = NewReal64(0)
		lo := VerifFinite64("lo")
		VerifAssume(a.GetFloat64() > lo)
		c.MAX(a, NewReal64(lo))
	case 7:
		c = NewReal64(0)
		VerifAssume(a.GetFloat64() > 0)
		c.ABS(a)
	}
	verifSameJetReal64("clone:equal-to-source", c, a)
	ref := j.mk()
	// mutate every slot of the clone
	c.SetFloat64(VerifFloat64("w"))
	for i := 0; i < 2; i++ {
		c.SetDerivative(i, VerifFloat64("w.d"))
		for k := 0; k < 2; k++ {
			c.SetHessian(i, k, VerifFloat64("w.h"))
		}
	}
	verifSameJetReal64("source-unchanged-by-clone-mutation", a, ref)
	c2 := a.Clone()
	a.SetFloat64(VerifFloat64("u"))
	for i := 0; i < 2; i++ {
		a.SetDerivative(i, VerifFloat64("u.d"))
		for k := 0; k < 2; k++ {
			a.SetHessian(i, k, VerifFloat64("u.h"))
		}
	}
	a.Alloc(1, 1)
	verifSameJetReal64("clone-unchanged-by-source-mutation", c2, ref)
	// Float64 (pointer wrapper)
	fx := VerifFloat64("f")
	f := NewFloat64(fx)
	g := f.Clone()
	g.SetFloat64(VerifFloat64("g"))
	VerifAssertSameBits("Float64:source-unchanged-by-clone-mutation", f.GetFloat64(), fx)
	VerifReach("C12-scalar")
}

// iterator clones: advancing a clone does not move the original
func verif_C12_iter(kind, n, pa int) {
	A := verifVecVals3(kind, "a", n, pa, false)
	v := A.vector(kind)
	it := v.Iterator()
	if it.Ok() {
		i0 := it.Index()
		c := it.CloneIterator()
		c.Next()
		VerifAssert("iterator-clone:original-not-advanced", it.Ok() && it.Index() == i0)
		it.Next()
		if c.Ok() {
			VerifAssert("iterator-clone:same-sequence", it.Ok() && it.Index() == c.Index())
		} else {
			VerifAssert("iterator-clone:same-sequence", !it.Ok())
		}
	}
	VerifReach("C12-iter")
}

// operands of vector/matrix operations stay unchanged (receiver distinct)
func verif_C12_operands(kind, op, pa, pb int) {
	real := verifIsReal(kind)
	A := verifMatVals3(kind, "a", 2, 2, pa, real)
	B := verifMatVals3(kind, "b", 2, 2, pb, real)
	a, b := A.matrix(kind), B.matrix(kind)
	xa, da := verifSnapMat(a, real)
	xb, db := verifSnapMat(b, real)
	r := verifNullMatrix(kind, 2, 2)
	switch op {
	case 0:
		r.MaddM(a, b)
	case 1:
		r.MmulM(a, b)
	case 2:
		r.MdotM(a, b)
	case 3:
		r.MdivM(a, b)
	case 4:
		r.Set(a)
	case 5:
		a.Equals(b, 1e-8)
	}
	verifSameSnapMat("operand-a-unchanged", a, xa, da, real)
	verifSameSnapMat("operand-b-unchanged", b, xb, db, real)
	// vector operands
	V := verifVecVals3(kind, "v", 2, pa%16, real)
	W := verifVecVals3(kind, "w", 2, pb%16, real)
	v, w := V.vector(kind), W.vector(kind)
	xv, dv := verifSnapVec(v, real)
	xw, dw := verifSnapVec(w, real)
	rv := verifNullVector(kind, 2)
	switch op {
	case 0:
		rv.VaddV(v, w)
	case 1:
		rv.VmulV(v, w)
	case 2:
		rv.MdotV(a, w)
		rv.VdotM(v, a)
	case 3:
		rv.VdivV(v, w)
	case 4:
		rv.Set(v)
	case 5:
		v.Equals(w, 1e-8)
		tt, _ := verifKindType(kind)
		s := NewScalar(tt, 0)
		s.VdotV(v, w)
		s.Vnorm(v)
	}
	verifSameSnapVec("operand-v-unchanged", v, xv, dv, real)
	verifSameSnapVec("operand-w-unchanged", w, xw, dw, real)
	verifSameSnapMat("operand-a-unchanged-2", a, xa, da, real)
	VerifReach("C12-operands")
}

// constructors from caller slices do not reorder or modify the caller's data
func verif_C12_ctor(n, pa int) {
	A := verifVecVals3(2, "a", n, pa, false)
	var idx []int
	var val []float64
	for i := n - 1; i >= 0; i-- {
		if A.st[i] != 1 {
			idx = append(idx, i)
			val = append(val, A.x[i])
		}
	}
	idx0 := append([]int{}, idx...)
	val0 := append([]float64{}, val...)
	NewSparseFloat64Vector(idx, val, n)
	for k := range idx {
		VerifAssert("NewSparseFloat64Vector:caller-indices-unchanged", idx[k] == idx0[k])
		VerifAssertSameBits("NewSparseFloat64Vector:caller-values-unchanged", val[k], val0[k])
	}
	NewSparseConstFloat64Vector(idx, val, n)
	for k := range idx {
		VerifAssert("NewSparseConstFloat64Vector:caller-indices-unchanged", idx[k] == idx0[k])
		VerifAssertSameBits("NewSparseConstFloat64Vector:caller-values-unchanged", val[k], val0[k])
	}
	// dense constructor: documented to adopt the slice (no assertion on sharing),
	// but construction itself must not modify it
	d := append([]float64{}, A.x...)
	NewDenseFloat64Vector(d)
	for i := range d {
		VerifAssertSameBits("NewDenseFloat64Vector:caller-values-unchanged", d[i], A.x[i])
	}
	VerifReach("C12-ctor")
}

func init() {
	VerifRegister("verif_C12_vec", func(a []int) { verif_C12_vec(a[0], a[1], a[2], a[3]) })
	VerifRegister("verif_C12_mat", func(a []int) { verif_C12_mat(a[0], a[1], a[2], a[3]) })
	VerifRegister("verif_C12_scalar", func(a []int) { verif_C12_scalar(a[0]) })
	VerifRegister("verif_C12_iter", func(a []int) { verif_C12_iter(a[0], a[1], a[2]) })
	VerifRegister("verif_C12_operands", func(a []int) { verif_C12_operands(a[0], a[1], a[2], a[3]) })
	VerifRegister("verif_C12_ctor", func(a []int) { verif_C12_ctor(a[0], a[1]) })
}
