package autodiff

import "encoding/json"

// C10 layer 2: every operation applied to a view (Slice / T compositions of a
// parent with symbolic elements) gives the result its definition says, and the
// parent is unchanged outside the view.

func verifC10Setup(kind, viewKind, R, C, zmask int) (Matrix, [][]float64, *verifView) {
	parent, E0 := verifSymMatrix(kind, "v", R, C, zmask)
	v := verifMkView(parent, verifCopyE(E0), viewKind)
	return parent, E0, v
}

func verif_C10_ops(kind, viewKind, op, R, C, zmask int) {
	parent, E0, v := verifC10Setup(kind, viewKind, R, C, zmask)
	n, m := v.dims()
	VerifReach("view-built")
	switch op {
	case 0: // reads
		verifSameElems("read", v.m, v.E)
		for i := 0; i < n; i++ {
			for j := 0; j < m; j++ {
				VerifAssertEqF("read:ConstAt", v.m.ConstAt(i, j).GetFloat64(), v.E[i][j])
				VerifAssertEqF("read:At", v.m.At(i, j).GetFloat64(), v.E[i][j])
			}
		}
		verifOutsideUnchanged("read", parent, E0, v)
	case 1: // copying accessors
		for i := 0; i < n; i++ {
			row := v.m.Row(i)
			verifSameVec("Row", row, v.E[i])
			if m > 0 {
				row.At(0).SetFloat64(12345)
			}
		}
		for j := 0; j < m; j++ {
			col := v.m.Col(j)
			var e []float64
			for i := 0; i < n; i++ {
				e = append(e, v.E[i][j])
			}
			verifSameVec("Col", col, e)
			if n > 0 {
				col.At(0).SetFloat64(12345)
			}
		}
		if n == m {
			var e []float64
			for i := 0; i < n; i++ {
				e = append(e, v.E[i][i])
			}
			d := v.m.Diag()
			verifSameVec("Diag", d, e)
			if n > 0 {
				d.At(0).SetFloat64(12345)
			}
		}
		// copies do not write through
		verifSameElems("copy-no-write-through", v.m, v.E)
		verifSameElems("copy-no-write-through:parent", parent, E0)
	case 2: // const accessors
		for i := 0; i < n; i++ {
			verifSameVec("ConstRow", v.m.ConstRow(i), v.E[i])
		}
		for j := 0; j < m; j++ {
			var e []float64
			for i := 0; i < n; i++ {
				e = append(e, v.E[i][j])
			}
			verifSameVec("ConstCol", v.m.ConstCol(j), e)
		}
		if n == m {
			var e []float64
			for i := 0; i < n; i++ {
				e = append(e, v.E[i][i])
			}
			verifSameVec("ConstDiag", v.m.ConstDiag(), e)
		}
		cs := v.m.ConstSlice(0, n, 0, m)
		verifSameElems("ConstSlice", cs, v.E)
	case 3: // vector reinterpretation: row-major elements of the view
		var e []float64
		for i := 0; i < n; i++ {
			e = append(e, v.E[i]...)
		}
		if n*m > 0 {
			verifSameVec("AsConstVector", v.m.AsConstVector(), e)
			verifSameVec("AsVector", v.m.AsVector(), e)
		}
	case 4: // iteration: non-zero elements in row-major order
		type ent struct {
			i, j int
			x    float64
		}
		var want []ent
		for i := 0; i < n; i++ {
			for j := 0; j < m; j++ {
				if v.E[i][j] != 0 {
					want = append(want, ent{i, j, v.E[i][j]})
				}
			}
		}
		k := 0
		for it := v.m.ConstIterator(); it.Ok(); it.Next() {
			i, j := it.Index()
			if k < len(want) {
				VerifAssert("ConstIterator:index", i == want[k].i && j == want[k].j)
				VerifAssertEqF("ConstIterator:value", it.GetConst().GetFloat64(), want[k].x)
			}
			k++
			if k > n*m+2 {
				break
			}
		}
		VerifAssert("ConstIterator:count", k == len(want))
		k = 0
		for it := v.m.Iterator(); it.Ok(); it.Next() {
			i, j := it.Index()
			if k < len(want) {
				VerifAssert("Iterator:index", i == want[k].i && j == want[k].j)
				VerifAssertEqF("Iterator:value", it.Get().GetFloat64(), want[k].x)
			}
			k++
			if k > n*m+2 {
				break
			}
		}
		VerifAssert("Iterator:count", k == len(want))
		// iteration from a start position: the non-zero elements at or after it
		for i0 := 0; i0 < n; i0++ {
			for j0 := 0; j0 < m; j0++ {
				var from []ent
				for _, w := range want {
					if w.i > i0 || (w.i == i0 && w.j >= j0) {
						from = append(from, w)
					}
				}
				k = 0
				for it := v.m.ConstIteratorFrom(i0, j0); it.Ok(); it.Next() {
					i, j := it.Index()
					if k < len(from) {
						VerifAssert("ConstIteratorFrom:index", i == from[k].i && j == from[k].j)
						VerifAssertEqF("ConstIteratorFrom:value", it.GetConst().GetFloat64(), from[k].x)
					}
					k++
					if k > n*m+2 {
						break
					}
				}
				VerifAssert("ConstIteratorFrom:count", k == len(from))
			}
		}
	case 5: // Reset through the view
		v.m.Reset()
		for i := 0; i < n; i++ {
			for j := 0; j < m; j++ {
				VerifAssertEqF("Reset:view-zero", v.m.Float64At(i, j), 0)
			}
		}
		verifOutsideUnchanged("Reset", parent, E0, v)
	case 6: // SetIdentity through the view
		v.m.SetIdentity()
		for i := 0; i < n; i++ {
			for j := 0; j < m; j++ {
				w := 0.0
				if i == j {
					w = 1.0
				}
				VerifAssertEqF("SetIdentity:view", v.m.Float64At(i, j), w)
				VerifAssertEqF("SetIdentity:parent", parent.Float64At(v.P[i][j][0], v.P[i][j][1]), w)
			}
		}
		verifOutsideUnchanged("SetIdentity", parent, E0, v)
	case 7: // Set writes through
		src, S := verifSymMatrix(kind, "s", n, m, 0)
		v.m.Set(src)
		for i := 0; i < n; i++ {
			for j := 0; j < m; j++ {
				VerifAssertEqF("Set:view", v.m.Float64At(i, j), S[i][j])
				VerifAssertEqF("Set:parent", parent.Float64At(v.P[i][j][0], v.P[i][j][1]), S[i][j])
			}
		}
		verifOutsideUnchanged("Set", parent, E0, v)
	case 8: // element-wise arithmetic with the view as operand, fresh receiver
		b, B := verifSymMatrix(kind, "b", n, m, 0)
		r := verifNullMatrix(kind, n, m)
		r.MaddM(v.m, b)
		c := verifNullMatrix(kind, n, m)
		c.MaddM(verifCompact(kind, v.E, n, m), b)
		for i := 0; i < n; i++ {
			for j := 0; j < m; j++ {
				VerifAssertEqF("MaddM:view-vs-copy", r.Float64At(i, j), c.Float64At(i, j))
			}
		}
		r.MmulM(b, v.m)
		c.MmulM(b, verifCompact(kind, v.E, n, m))
		for i := 0; i < n; i++ {
			for j := 0; j < m; j++ {
				VerifAssertEqF("MmulM:view-vs-copy", r.Float64At(i, j), c.Float64At(i, j))
			}
		}
		_ = B
		verifSameElems("elementwise:operand-unchanged", v.m, v.E)
		verifSameElems("elementwise:parent-unchanged", parent, E0)
	case 9: // element-wise arithmetic with the view as receiver
		a, _ := verifSymMatrix(kind, "a", n, m, 0)
		b, _ := verifSymMatrix(kind, "b", n, m, 0)
		c := verifNullMatrix(kind, n, m)
		c.MsubM(a, b)
		v.m.MsubM(a, b)
		for i := 0; i < n; i++ {
			for j := 0; j < m; j++ {
				VerifAssertEqF("MsubM:recv-view", v.m.Float64At(i, j), c.Float64At(i, j))
				VerifAssertEqF("MsubM:recv-view:parent", parent.Float64At(v.P[i][j][0], v.P[i][j][1]), c.Float64At(i, j))
			}
		}
		verifOutsideUnchanged("MsubM:recv-view", parent, E0, v)
	case 10: // matrix product with the view as left / right factor
		if n > 0 && m > 0 {
			b, _ := verifSymMatrix(kind, "b", m, 2, 0)
			r := verifNullMatrix(kind, n, 2)
			r.MdotM(v.m, b)
			c := verifNullMatrix(kind, n, 2)
			c.MdotM(verifCompact(kind, v.E, n, m), b)
			for i := 0; i < n; i++ {
				for j := 0; j < 2; j++ {
					VerifAssertEqF("MdotM:left-view", r.Float64At(i, j), c.Float64At(i, j))
				}
			}
			b2, _ := verifSymMatrix(kind, "c", 2, n, 0)
			r2 := verifNullMatrix(kind, 2, m)
			r2.MdotM(b2, v.m)
			c2 := verifNullMatrix(kind, 2, m)
			c2.MdotM(b2, verifCompact(kind, v.E, n, m))
			for i := 0; i < 2; i++ {
				for j := 0; j < m; j++ {
					VerifAssertEqF("MdotM:right-view", r2.Float64At(i, j), c2.Float64At(i, j))
				}
			}
			verifSameElems("MdotM:parent-unchanged", parent, E0)
		}
	case 11: // matrix-vector products
		if n > 0 && m > 0 {
			x, _ := verifSymVector(kind, "x", m, 0)
			r := verifNullVector(kind, n)
			r.MdotV(v.m, x)
			c := verifNullVector(kind, n)
			c.MdotV(verifCompact(kind, v.E, n, m), x)
			for i := 0; i < n; i++ {
				VerifAssertEqF("MdotV:view", r.Float64At(i), c.Float64At(i))
			}
			y, _ := verifSymVector(kind, "y", n, 0)
			r2 := verifNullVector(kind, m)
			r2.VdotM(y, v.m)
			c2 := verifNullVector(kind, m)
			c2.VdotM(y, verifCompact(kind, v.E, n, m))
			for j := 0; j < m; j++ {
				VerifAssertEqF("VdotM:view", r2.Float64At(j), c2.Float64At(j))
			}
		}
	case 12: // Equals against the compact copy, both directions
		c := verifCompact(kind, v.E, n, m)
		VerifAssert("Equals:view-copy", v.m.Equals(c, 1e-10))
		VerifAssert("Equals:copy-view", c.Equals(v.m, 1e-10))
	case 13: // Map / Reduce / MapSet
		t, _ := verifKindType(kind)
		sum := v.m.Reduce(func(r Scalar, x ConstScalar) Scalar { r.Add(r, x); return r }, NewScalar(t, 0))
		c := verifCompact(kind, v.E, n, m)
		sum2 := c.Reduce(func(r Scalar, x ConstScalar) Scalar { r.Add(r, x); return r }, NewScalar(t, 0))
		VerifAssertEqF("Reduce:view-vs-copy", sum.GetFloat64(), sum2.GetFloat64())
		one := NewScalar(t, 1)
		v.m.Map(func(x Scalar) { x.Add(x, one) })
		c.Map(func(x Scalar) { x.Add(x, one) })
		for i := 0; i < n; i++ {
			for j := 0; j < m; j++ {
				VerifAssertEqF("Map:view-vs-copy", v.m.Float64At(i, j), c.Float64At(i, j))
			}
		}
		verifOutsideUnchanged("Map", parent, E0, v)
	case 14: // clone of a view: equal and independent
		c := v.m.CloneMatrix()
		verifSameElems("Clone", c, v.E)
		if n > 0 && m > 0 {
			c.At(0, 0).SetFloat64(777)
			VerifAssertEqF("Clone:independent", v.m.Float64At(0, 0), v.E[0][0])
			x := verifWriteVal(kind, "w")
			v.m.At(n-1, m-1).SetFloat64(x)
			if n > 1 || m > 1 {
				VerifAssertEqF("Clone:independent-2", c.Float64At(n-1, m-1), v.E[n-1][m-1])
			}
		}
	case 15: // Swap inside the view
		if n > 0 && m > 0 {
			v.m.Swap(0, 0, n-1, m-1)
			VerifAssertEqF("Swap:a", v.m.Float64At(0, 0), v.E[n-1][m-1])
			VerifAssertEqF("Swap:b", v.m.Float64At(n-1, m-1), v.E[0][0])
			verifOutsideUnchanged("Swap", parent, E0, v)
		}
	case 16: // joint iteration of the view with an independent matrix
		b, B := verifSymMatrix(kind, "b", n, m, 0)
		k := 0
		for it := v.m.JointIterator(b); it.Ok(); it.Next() {
			i, j := it.Index()
			s1, s2 := it.GetConst()
			if i >= 0 && i < n && j >= 0 && j < m {
				x := 0.0
				if s1 != nil {
					x = s1.GetFloat64()
				}
				VerifAssertEqF("JointIterator:first", x, v.E[i][j])
				VerifAssertEqF("JointIterator:second", s2.GetFloat64(), B[i][j])
			} else {
				VerifAssert("JointIterator:index-in-view", false)
			}
			k++
			if k > n*m+2 {
				break
			}
		}
		VerifAssert("JointIterator:count", k == n*m)
	case 17: // writes through single elements
		if n > 0 && m > 0 {
			x := verifWriteVal(kind, "w")
			v.m.At(n-1, 0).SetFloat64(x)
			VerifAssertEqF("write-through", parent.Float64At(v.P[n-1][0][0], v.P[n-1][0][1]), x)
			verifOutsideUnchanged("write-through", parent, E0, v)
		}
	case 18: // dimensions of (possibly empty) views
		n1, n2 := v.m.Dims()
		VerifAssert("Dims:rows", n1 == n)
		VerifAssert("Dims:cols", n2 == m)
	case 19: // JSON encoding of the view = JSON encoding of an independent copy
		data, err := json.Marshal(v.m)
		VerifAssert("JSON:marshal-no-error", err == nil)
		if err == nil {
			b := verifNullMatrix(kind, 0, 0)
			err = json.Unmarshal(data, b)
			VerifAssert("JSON:unmarshal-no-error", err == nil)
			if err == nil {
				verifSameElems("JSON:decoded-view", b, v.E)
			}
		}
	default:
		panic("bad op")
	}
}

// Tip on a matrix owning its whole storage equals its former T().
func verif_C10_tip(kind, R, C int) {
	m, E := verifSymMatrix(kind, "v", R, C, 0)
	m.Tip()
	n1, n2 := m.Dims()
	VerifAssert("Tip:rows", n1 == C)
	VerifAssert("Tip:cols", n2 == R)
	if n1 == C && n2 == R {
		for i := 0; i < C; i++ {
			for j := 0; j < R; j++ {
				VerifAssertEqF("Tip:elem", m.Float64At(i, j), E[j][i])
			}
		}
	}
	VerifReach("tip")
}

func init() {
	VerifRegister("verif_C10_ops", func(a []int) { verif_C10_ops(a[0], a[1], a[2], a[3], a[4], a[5]) })
	VerifRegister("verif_C10_tip", func(a []int) { verif_C10_tip(a[0], a[1], a[2]) })
}

// a value that the element type of kind represents exactly
func verifWriteVal(kind int, name string) float64 {
	if verifIs32(kind) {
		return float64(VerifFinite32(name))
	}
	return VerifFinite64(name)
}
