package autodiff

// C20 (loud failure): shape mismatches, out-of-range indices and unsupported
// derivative orders are reported by a panic or an error at the call.

func verifFilledVector(kind, n int, name string) Vector {
	v := verifNullVector(kind, n)
	for i := 0; i < n; i++ {
		x := VerifFinite64(name)
		VerifAssume(x != 0)
		v.At(i).SetFloat64(x)
	}
	return v
}

func verifFilledMatrix(kind, r, c int, name string) Matrix {
	m := verifNullMatrix(kind, r, c)
	for i := 0; i < r; i++ {
		for j := 0; j < c; j++ {
			x := VerifFinite64(name)
			VerifAssume(x != 0)
			m.At(i, j).SetFloat64(x)
		}
	}
	return m
}

// vector operations with symbolic dimensions 0..2 of receiver and operands
func verif_C20_vecshape(kind, op int) {
	nr := VerifChoice("nr", 3)
	na := VerifChoice("na", 3)
	nb := VerifChoice("nb", 3)
	r := verifFilledVector(kind, nr, "r")
	a := verifFilledVector(kind, na, "a")
	b := verifFilledVector(kind, nb, "b")
	t, _ := verifKindType(kind)
	s := NewScalar(t, 2)
	var p bool
	ok := true
	name := ""
	switch op {
	case 0:
		name = "VaddV"
		ok = nr == na && nr == nb
		p = VerifPanics(func() { r.VaddV(a, b) })
	case 1:
		name = "VsubV"
		ok = nr == na && nr == nb
		p = VerifPanics(func() { r.VsubV(a, b) })
	case 2:
		name = "VmulV"
		ok = nr == na && nr == nb
		p = VerifPanics(func() { r.VmulV(a, b) })
	case 3:
		name = "VdivV"
		ok = nr == na && nr == nb
		p = VerifPanics(func() { r.VdivV(a, b) })
	case 4:
		name = "VaddS"
		ok = nr == na
		p = VerifPanics(func() { r.VaddS(a, s) })
	case 5:
		name = "VmulS"
		ok = nr == na
		p = VerifPanics(func() { r.VmulS(a, s) })
	case 6:
		name = "Set"
		ok = nr == na
		p = VerifPanics(func() { r.Set(a) })
	case 7:
		name = "Equals"
		ok = na == nb
		p = VerifPanics(func() { a.Equals(b, 1e-8) })
	case 8:
		name = "VdotV"
		ok = na == nb
		x := NewScalar(t, 0)
		p = VerifPanics(func() { x.VdotV(a, b) })
	case 9:
		name = "VsubS"
		ok = nr == na
		p = VerifPanics(func() { r.VsubS(a, s) })
	case 10:
		name = "VdivS"
		ok = nr == na
		p = VerifPanics(func() { r.VdivS(a, s) })
	}
	if ok {
		// a panic on matching shapes is loud, hence not a C20 violation (storage
		// independence of such calls is C03); a normal return must keep the shape
		if !p {
			VerifAssert(name+":result-shape", r.Dim() == nr)
		}
	} else {
		VerifAssert(name+":shape-mismatch-not-reported", p)
	}
	VerifReach("C20-vecshape")
}

// matrix operations, each dimension in 1..2
func verif_C20_matshape(kind, op int) {
	d := func(name string) int { return 1 + VerifChoice(name, 2) }
	var p bool
	ok := true
	name := ""
	switch op {
	case 0, 1, 2, 3: // element-wise r(r1xc1) = a(r2xc2) op b(r3xc3)
		r1, c1, r2, c2, r3, c3 := d("r1"), d("c1"), d("r2"), d("c2"), d("r3"), d("c3")
		r := verifFilledMatrix(kind, r1, c1, "r")
		a := verifFilledMatrix(kind, r2, c2, "a")
		b := verifFilledMatrix(kind, r3, c3, "b")
		ok = r1 == r2 && r1 == r3 && c1 == c2 && c1 == c3
		switch op {
		case 0:
			name = "MaddM"
			p = VerifPanics(func() { r.MaddM(a, b) })
		case 1:
			name = "MsubM"
			p = VerifPanics(func() { r.MsubM(a, b) })
		case 2:
			name = "MmulM"
			p = VerifPanics(func() { r.MmulM(a, b) })
		case 3:
			name = "MdivM"
			p = VerifPanics(func() { r.MdivM(a, b) })
		}
		if ok {
			n1, n2 := r.Dims()
			VerifAssert(name+":result-shape", n1 == r1 && n2 == c1)
		}
	case 4: // MdotM r(r1xc1) = a(r2xc2) . b(r3xc3)
		name = "MdotM"
		r1, c1, r2, c2, r3, c3 := d("r1"), d("c1"), d("r2"), d("c2"), d("r3"), d("c3")
		r := verifFilledMatrix(kind, r1, c1, "r")
		a := verifFilledMatrix(kind, r2, c2, "a")
		b := verifFilledMatrix(kind, r3, c3, "b")
		ok = r1 == r2 && c2 == r3 && c1 == c3
		p = VerifPanics(func() { r.MdotM(a, b) })
	case 5: // MdotV r(n) = a(r2xc2) . b(m)
		name = "MdotV"
		n, r2, c2, m := d("n"), d("r2"), d("c2"), d("m")
		r := verifFilledVector(kind, n, "r")
		a := verifFilledMatrix(kind, r2, c2, "a")
		b := verifFilledVector(kind, m, "b")
		ok = n == r2 && c2 == m
		p = VerifPanics(func() { r.MdotV(a, b) })
	case 6: // VdotM r(n) = a(m) . b(r2xc2)
		name = "VdotM"
		n, m, r2, c2 := d("n"), d("m"), d("r2"), d("c2")
		r := verifFilledVector(kind, n, "r")
		a := verifFilledVector(kind, m, "a")
		b := verifFilledMatrix(kind, r2, c2, "b")
		ok = m == r2 && n == c2
		p = VerifPanics(func() { r.VdotM(a, b) })
	case 7: // Outer r(r1xc1) = a(n) x b(m)
		name = "Outer"
		r1, c1, n, m := d("r1"), d("c1"), d("n"), d("m")
		r := verifFilledMatrix(kind, r1, c1, "r")
		a := verifFilledVector(kind, n, "a")
		b := verifFilledVector(kind, m, "b")
		ok = r1 == n && c1 == m
		p = VerifPanics(func() { r.Outer(a, b) })
	case 8: // Set / Equals
		name = "Set"
		r1, c1, r2, c2 := d("r1"), d("c1"), d("r2"), d("c2")
		r := verifFilledMatrix(kind, r1, c1, "r")
		a := verifFilledMatrix(kind, r2, c2, "a")
		ok = r1 == r2 && c1 == c2
		p = VerifPanics(func() { r.Set(a) })
		p2 := VerifPanics(func() { r.Equals(a, 1e-8) })
		if !ok {
			VerifAssert("Equals:shape-mismatch-not-reported", p2)
		}
	case 9: // Mtrace of a non-square matrix, Diag
		name = "Diag"
		r1, c1 := d("r1"), d("c1")
		a := verifFilledMatrix(kind, r1, c1, "a")
		ok = r1 == c1
		p = VerifPanics(func() { a.Diag() })
		t, _ := verifKindType(kind)
		x := NewScalar(t, 0)
		p2 := VerifPanics(func() { x.Mtrace(a) })
		if !ok {
			VerifAssert("Mtrace:non-square-not-reported", p2)
		}
	}
	if !ok {
		VerifAssert(name+":shape-mismatch-not-reported", p)
	}
	VerifReach("C20-matshape")
}

// element access with a symbolic index: out-of-range indices are reported,
// in-range ones are not and address the right element
func verif_C20_index(kind, viewKind int) {
	n := 3
	v := verifFilledVector(kind, n, "v")
	i := VerifInt("i", -2, n+1)
	in := i >= 0 && i < n
	VerifAssert("vector:At-out-of-range-reported", VerifPanics(func() { v.At(i) }) == !in)
	VerifAssert("vector:ConstAt-out-of-range-reported", VerifPanics(func() { v.ConstAt(i) }) == !in)
	VerifAssert("vector:Float64At-out-of-range-reported", VerifPanics(func() { v.Float64At(i) }) == !in)
	// matrix views
	parent, E := verifSymMatrix(kind, "m", 3, 3, 0)
	w := verifMkView(parent, verifCopyE(E), viewKind)
	r, c := w.dims()
	a := VerifInt("a", -1, 3)
	b := VerifInt("b", -1, 3)
	inm := a >= 0 && a < r && b >= 0 && b < c
	VerifAssert("matrix:At-out-of-view-reported", VerifPanics(func() { w.m.At(a, b) }) == !inm)
	VerifAssert("matrix:ConstAt-out-of-view-reported", VerifPanics(func() { w.m.ConstAt(a, b) }) == !inm)
	VerifAssert("matrix:Float64At-out-of-view-reported", VerifPanics(func() { w.m.Float64At(a, b) }) == !inm)
	if !inm {
		// a rejected write does not touch the parent
		VerifPanics(func() { w.m.At(a, b).SetFloat64(12345) })
		verifSameElems("matrix:parent-unchanged-after-rejected-write", parent, E)
	}
	VerifAssert("matrix:Row-out-of-view-reported", VerifPanics(func() { w.m.Row(a) }) == !(a >= 0 && a < r) || c == 0)
	VerifAssert("matrix:Col-out-of-view-reported", VerifPanics(func() { w.m.Col(b) }) == !(b >= 0 && b < c) || r == 0)
	VerifReach("C20-index")
}

// derivative bookkeeping: unsupported orders and inconsistent N are reported
func verif_C20_orders() {
	a := NewReal64(VerifFinite64("a"))
	order := VerifInt("order", -1, 4)
	err := a.SetVariable(0, 2, order)
	if order > 2 {
		VerifAssert("SetVariable:unsupported-order-reported", err != nil)
	}
	if order >= 0 && order <= 2 {
		VerifAssert("SetVariable:supported-order-accepted", err == nil)
	}
	x := verifJetValsReal64("x", 2, 1).mk()
	y := verifJetValsReal64("y", 3, 1).mk()
	r := NewReal64(0)
	VerifAssert("dyadic:different-N-reported", VerifPanics(func() { r.Add(x, y) }))
	VerifAssert("dyadic:different-N-reported:Mul", VerifPanics(func() { r.Mul(x, y) }))
	VerifReach("C20-orders")
}

// structural loops terminate: Tip, Permute, Sort, ReverseOrder on every small
// shape (the executor's unwinding bound turns a non-terminating loop into an
// undecided path, which the check reports)
func verif_C20_structural(kind, r, c int) {
	m := verifFilledMatrix(kind, r, c, "m")
	m.Tip()
	n1, n2 := m.Dims()
	VerifAssert("Tip:dims", n1 == c && n2 == r)
	n := r * c
	if n > 3 {
		n = 3
	}
	v := verifFilledVector(kind, n, "v")
	v.ReverseOrder()
	v.Sort(false)
	for it := v.ConstIterator(); it.Ok(); it.Next() {
	}
	VerifReach("C20-structural")
}

func init() {
	VerifRegister("verif_C20_vecshape", func(a []int) { verif_C20_vecshape(a[0], a[1]) })
	VerifRegister("verif_C20_matshape", func(a []int) { verif_C20_matshape(a[0], a[1]) })
	VerifRegister("verif_C20_index", func(a []int) { verif_C20_index(a[0], a[1]) })
	VerifRegister("verif_C20_orders", func(a []int) { verif_C20_orders() })
	VerifRegister("verif_C20_structural", func(a []int) { verif_C20_structural(a[0], a[1], a[2]) })
}
