package autodiff

// C03 for the constant sparse vectors (index/value slices with a lazily built
// position index): positional reads, iteration and slices agree with the dense
// model in every order of use. order selects the sequence of first uses
// (0: whole by position, then slice; 1: slice taken and read first, then the
// whole; 2: iteration first).
func verif_C03_constsparse(pat, j, order int) {
	n := 4
	var idx []int
	var val []float64
	E := make([]float64, n)
	for i := 0; i < n; i++ {
		if (pat>>uint(i))&1 == 1 {
			x := VerifFinite64("v")
			VerifAssume(x != 0)
			idx = append(idx, i)
			val = append(val, x)
			E[i] = x
		}
	}
	x := NewSparseConstFloat64Vector(idx, val, n)
	readWhole := func(label string) {
		for i := 0; i < n; i++ {
			VerifAssertEqF(label+":whole-by-position", x.Float64At(i), E[i])
			VerifAssertEqF(label+":whole-ConstAt", x.ConstAt(i).GetFloat64(), E[i])
		}
	}
	readSlice := func(label string, s ConstVector, lo, hi int) {
		VerifAssert(label+":slice-dim", s.Dim() == hi-lo)
		if s.Dim() != hi-lo {
			return
		}
		for i := lo; i < hi; i++ {
			VerifAssertEqF(label+":slice-by-position", s.Float64At(i-lo), E[i])
		}
		k := 0
		for it := s.ConstIterator(); it.Ok(); it.Next() {
			VerifAssertEqF(label+":slice-iteration", it.GetConst().GetFloat64(), E[lo+it.Index()])
			k++
			if k > n+1 {
				break
			}
		}
	}
	iterate := func(label string) {
		k := 0
		for it := x.ConstIterator(); it.Ok(); it.Next() {
			VerifAssertEqF(label+":iteration", it.GetConst().GetFloat64(), E[it.Index()])
			k++
			if k > n+1 {
				break
			}
		}
		cnt := 0
		for i := 0; i < n; i++ {
			if E[i] != 0 {
				cnt++
			}
		}
		VerifAssert(label+":iteration-count", k == cnt)
	}
	switch order {
	case 0:
		readWhole("whole-first")
		s := x.ConstSlice(0, j)
		readSlice("whole-first", s, 0, j)
		t := x.ConstSlice(j, n)
		readSlice("whole-first:tail", t, j, n)
		readWhole("whole-first:again")
	case 1:
		s := x.ConstSlice(0, j)
		readSlice("slice-first", s, 0, j)
		readWhole("slice-first")
		t := x.ConstSlice(j, n)
		readSlice("slice-first:tail", t, j, n)
		readWhole("slice-first:again")
	case 2:
		iterate("iterate-first")
		t := x.ConstSlice(j, n)
		readSlice("iterate-first:tail", t, j, n)
		readWhole("iterate-first")
		s := x.ConstSlice(0, j)
		readSlice("iterate-first", s, 0, j)
		iterate("iterate-first:again")
	}
	// a dense receiver reads the operand by position, a sparse one iterates
	d := NullDenseFloat64Vector(n)
	d.Set(x)
	for i := 0; i < n; i++ {
		VerifAssertEqF("dense.Set(const-sparse)", d.Float64At(i), E[i])
	}
	VerifReach("C03-constsparse")
}

func init() {
	VerifRegister("verif_C03_constsparse", func(a []int) { verif_C03_constsparse(a[0], a[1], a[2]) })
}
