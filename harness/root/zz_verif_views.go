package autodiff

// Shared helpers: symbolic parents, view compositions with their definitional
// model (expected elements and parent coordinates), comparison helpers.

type verifView struct {
	m    Matrix
	E    [][]float64 // expected elements, by the definition of Slice / T
	P    [][][2]int  // parent coordinates of every view element
	r, c int         // expected dimensions (E has no rows when r == 0)
}

// kind: 0 dense Float64, 1 dense Real64, 2 sparse Float64, 3 sparse Real64,
// 4 dense Float32, 5 dense Real32, 6 sparse Float32, 7 sparse Real32
func verifKindType(kind int) (ScalarType, bool) {
	switch kind {
	case 0:
		return Float64Type, false
	case 1:
		return Real64Type, false
	case 2:
		return Float64Type, true
	case 3:
		return Real64Type, true
	case 4:
		return Float32Type, false
	case 5:
		return Real32Type, false
	case 6:
		return Float32Type, true
	case 7:
		return Real32Type, true
	}
	panic("bad kind")
}

func verifIs32(kind int) bool { return kind >= 4 }

func verifNullMatrix(kind, r, c int) Matrix {
	t, sparse := verifKindType(kind)
	if sparse {
		return NullSparseMatrix(t, r, c)
	}
	return NullDenseMatrix(t, r, c)
}

func verifNullVector(kind, n int) Vector {
	t, sparse := verifKindType(kind)
	if sparse {
		return NullSparseVector(t, n)
	}
	return NullDenseVector(t, n)
}

// verifElem: element (idx) is an exact zero when its mask bit is set, otherwise
// a symbolic finite non-zero value.
func verifElem(kind int, name string, idx int, zmask int) float64 {
	if (zmask>>uint(idx))&1 == 1 {
		return 0.0
	}
	var x float64
	if verifIs32(kind) {
		x = float64(VerifFinite32(name))
	} else {
		x = VerifFinite64(name)
	}
	VerifAssume(x != 0)
	return x
}

func verifSymMatrix(kind int, name string, r, c, zmask int) (Matrix, [][]float64) {
	m := verifNullMatrix(kind, r, c)
	E := make([][]float64, r)
	for i := 0; i < r; i++ {
		E[i] = make([]float64, c)
		for j := 0; j < c; j++ {
			E[i][j] = verifElem(kind, name, i*c+j, zmask)
			if E[i][j] != 0 {
				m.At(i, j).SetFloat64(E[i][j])
			}
		}
	}
	return m, E
}

func verifSymVector(kind int, name string, n, zmask int) (Vector, []float64) {
	v := verifNullVector(kind, n)
	E := make([]float64, n)
	for i := 0; i < n; i++ {
		E[i] = verifElem(kind, name, i, zmask)
		if E[i] != 0 {
			v.At(i).SetFloat64(E[i])
		}
	}
	return v, E
}

func verifCompact(kind int, E [][]float64, r, c int) Matrix {
	m := verifNullMatrix(kind, r, c)
	for i := 0; i < r; i++ {
		for j := 0; j < c; j++ {
			if E[i][j] != 0 {
				m.At(i, j).SetFloat64(E[i][j])
			}
		}
	}
	return m
}

func verifWhole(m Matrix, E [][]float64) *verifView {
	r, c := len(E), 0
	if r > 0 {
		c = len(E[0])
	}
	P := make([][][2]int, r)
	for i := range P {
		P[i] = make([][2]int, c)
		for j := range P[i] {
			P[i][j] = [2]int{i, j}
		}
	}
	return &verifView{m, E, P, r, c}
}

func (v *verifView) dims() (int, int) { return v.r, v.c }

// slice with symbolic bounds (one path per bound tuple); nonEmpty restricts to
// views with at least one element
func (v *verifView) slice(nonEmpty bool) *verifView {
	r, c := v.dims()
	lo := 0
	if nonEmpty {
		lo = 1
	}
	r0 := VerifChoice("r0", r+1-lo)
	r1 := r0 + lo + VerifChoice("dr", r-r0+1-lo)
	c0 := VerifChoice("c0", c+1-lo)
	c1 := c0 + lo + VerifChoice("dc", c-c0+1-lo)
	return v.sliceAt(r0, r1, c0, c1)
}

func (v *verifView) sliceAt(r0, r1, c0, c1 int) *verifView {
	w := &verifView{r: r1 - r0, c: c1 - c0}
	w.m = v.m.Slice(r0, r1, c0, c1)
	for i := r0; i < r1; i++ {
		w.E = append(w.E, v.E[i][c0:c1])
		w.P = append(w.P, v.P[i][c0:c1])
	}
	if r1 == r0 {
		w.E = [][]float64{}
	}
	return w
}

func (v *verifView) t() *verifView {
	r, c := v.dims()
	w := &verifView{r: c, c: r}
	w.m = v.m.T()
	w.E = make([][]float64, c)
	w.P = make([][][2]int, c)
	for j := 0; j < c; j++ {
		w.E[j] = make([]float64, r)
		w.P[j] = make([][2]int, r)
		for i := 0; i < r; i++ {
			w.E[j][i] = v.E[i][j]
			w.P[j][i] = v.P[i][j]
		}
	}
	return w
}

// viewKind: 0 whole, 1 S, 2 T, 3 S;T, 4 T;S, 5 S;S, 6 T;T, 7 S;T;S
func verifMkView(parent Matrix, E [][]float64, viewKind int) *verifView {
	v := verifWhole(parent, E)
	switch viewKind {
	case 0:
	case 1:
		v = v.slice(true)
	case 2:
		v = v.t()
	case 3:
		v = v.slice(true).t()
	case 4:
		v = v.t().slice(true)
	case 8: // possibly empty slice (dimension bookkeeping only)
		v = v.slice(false)
	case 9:
		v = v.slice(false).t()
	case 5:
		v = v.slice(true).slice(true)
	case 6:
		v = v.t().t()
	case 7:
		v = v.slice(true).t().slice(true)
	default:
		panic("bad view kind")
	}
	return v
}

func verifEq(kind int, label string, got, want float64) {
	VerifAssertEqF(label, got, want)
}

func verifSameElems(label string, m ConstMatrix, E [][]float64) {
	r, c := len(E), 0
	if r > 0 {
		c = len(E[0])
	}
	n1, n2 := m.Dims()
	VerifAssert(label+":rows", n1 == r)
	// E of a matrix with no rows does not record the column count
	if r > 0 {
		VerifAssert(label+":cols", n2 == c)
	}
	if n1 != r || (r > 0 && n2 != c) {
		return
	}
	for i := 0; i < r; i++ {
		for j := 0; j < c; j++ {
			VerifAssertEqF(label+":elem", m.Float64At(i, j), E[i][j])
		}
	}
}

func verifSameVec(label string, v ConstVector, E []float64) {
	VerifAssert(label+":dim", v.Dim() == len(E))
	if v.Dim() != len(E) {
		return
	}
	for i := range E {
		VerifAssertEqF(label+":elem", v.Float64At(i), E[i])
	}
}

// verifOutsideUnchanged: parent elements that are not part of the view still
// hold their original values.
func verifOutsideUnchanged(label string, parent ConstMatrix, E0 [][]float64, v *verifView) {
	in := map[[2]int]bool{}
	for _, row := range v.P {
		for _, p := range row {
			in[p] = true
		}
	}
	for i := range E0 {
		for j := range E0[i] {
			if !in[[2]int{i, j}] {
				VerifAssertEqF(label+":outside-unchanged", parent.Float64At(i, j), E0[i][j])
			}
		}
	}
}

func verifCopyE(E [][]float64) [][]float64 {
	r := make([][]float64, len(E))
	for i := range E {
		r[i] = append([]float64{}, E[i]...)
	}
	return r
}
