package autodiff

// C11: one public operation from an arbitrary valid sparse-vector
// representation (inductive step over the representation invariant), compared
// with a dense model of the same history.
//
// position states (base-4 digits of pat): 0 stored non-zero (symbolic),
// 1 absent, 2 stored zero, 3 key in the index without a value (a state skip()
// heals; reachable e.g. after Swap)

func verifShapesWithSize(k int) []*verifShape {
	var out []*verifShape
	for h := 0; h <= 4; h++ {
		for _, s := range verifAvlShapes(h) {
			if verifShapeSize(s) == k {
				out = append(out, s)
			}
		}
	}
	return out
}

type verifC11State struct {
	v     *SparseFloat64Vector
	model []float64
	n     int
}

// verifC11Pre builds the pre-state directly (values map + literal AVL index of
// the requested shape) and the dense model.
func verifC11Pre(n, pat, shapeIdx int) *verifC11State {
	st := &verifC11State{n: n, model: make([]float64, n)}
	v := &SparseFloat64Vector{values: make(map[int]Float64), n: n}
	var keys []int
	for i := 0; i < n; i++ {
		switch verifDigit(pat, i) {
		case 0:
			x := VerifFinite64("v")
			VerifAssume(x != 0)
			v.values[i] = NewFloat64(x)
			st.model[i] = x
			keys = append(keys, i)
		case 2:
			v.values[i] = NewFloat64(0)
			keys = append(keys, i)
		case 3:
			keys = append(keys, i)
		}
	}
	shapes := verifShapesWithSize(len(keys))
	s := shapes[shapeIdx%len(shapes)]
	pos := 0
	var nodes []*AvlNode
	v.vectorSparseIndex.AvlTree.Root = verifBuild(s, keys, &pos, nil, &nodes)
	st.v = v
	return st
}

// invariant used for the induction (weak form): every stored value has an
// index key and a non-nil scalar; the index is a valid AVL tree.
func verifC11Inv(label string, v *SparseFloat64Vector) {
	var keys []int
	verifCheckTree(v.vectorSparseIndex.AvlTree.Root, nil, &keys)
	for i := 1; i < len(keys); i++ {
		VerifAssert(label+":index-ascending", keys[i-1] < keys[i])
	}
	for k, s := range v.values {
		VerifAssert(label+":value-has-index-key", verifMember(keys, k))
		VerifAssert(label+":no-nil-scalar", s.ptr != nil)
		VerifAssert(label+":key-in-range", k >= 0 && k < v.n)
	}
}

// observable agreement with the dense model
func verifC11Observe(label string, v Vector, model []float64) {
	VerifAssert(label+":dim", v.Dim() == len(model))
	if v.Dim() != len(model) {
		return
	}
	for i := range model {
		VerifAssertEqF(label+":read", v.Float64At(i), model[i])
	}
	// iteration: exactly the non-zero positions, ascending, once
	var want []int
	for i := range model {
		if model[i] != 0 {
			want = append(want, i)
		}
	}
	k := 0
	for it := v.ConstIterator(); it.Ok(); it.Next() {
		if k < len(want) {
			VerifAssert(label+":iter-index", it.Index() == want[k])
			if it.Index() >= 0 && it.Index() < len(model) {
				VerifAssertEqF(label+":iter-value", it.GetConst().GetFloat64(), model[it.Index()])
			}
		}
		k++
		if k > len(model)+2 {
			break
		}
	}
	VerifAssert(label+":iter-count", k == len(want))
	for i := range model {
		VerifAssertEqF(label+":read-after-iteration", v.Float64At(i), model[i])
		VerifAssertEqF(label+":constat-after-iteration", v.ConstAt(i).GetFloat64(), model[i])
	}
}

func verifPerm(n, idx int) []int {
	// idx-th permutation of 0..n-1 in lexicographic order
	elems := make([]int, n)
	for i := range elems {
		elems[i] = i
	}
	fact := 1
	for i := 2; i < n; i++ {
		fact *= i
	}
	var out []int
	for i := n - 1; i >= 0; i-- {
		q := 0
		if fact > 0 {
			q = idx / fact
			idx = idx % fact
		}
		out = append(out, elems[q])
		elems = append(elems[:q], elems[q+1:]...)
		if i > 0 {
			fact /= i
		}
	}
	return out
}

func verifDenseFrom(model []float64) DenseFloat64Vector {
	d := NullDenseFloat64Vector(len(model))
	for i, x := range model {
		d.At(i).SetFloat64(x)
	}
	return d
}

func verifModelOf(d ConstVector) []float64 {
	m := make([]float64, d.Dim())
	for i := range m {
		m[i] = d.Float64At(i)
	}
	return m
}

func verif_C11_step(n, pat, shape, op, a1, a2 int) {
	st := verifC11Pre(n, pat, shape)
	v, model := st.v, st.model
	VerifReach("C11-pre")
	switch op {
	case 0: // write through At(i) (creates the entry)
		w := VerifFinite64("w")
		v.At(a1).SetFloat64(w)
		model[a1] = w
	case 1: // reads only
		VerifAssertEqF("read:Float64At", v.Float64At(a1), model[a1])
		VerifAssertEqF("read:ConstAt", v.ConstAt(a1).GetFloat64(), model[a1])
	case 2: // Set from a dense or sparse vector with its own zero pattern
		X := verifVecVals3(a2, "x", n, a1, false)
		v.Set(X.vector(a2))
		for i := 0; i < n; i++ {
			model[i] = X.x[i]
		}
	case 3:
		v.Reset()
		for i := range model {
			model[i] = 0
		}
	case 4:
		v.Swap(a1, a2)
		model[a1], model[a2] = model[a2], model[a1]
	case 5: // Permute: the dense implementation on the same data is the model
		pi := verifPerm(n, a1)
		d := verifDenseFrom(model)
		e1 := v.Permute(pi)
		e2 := d.Permute(pi)
		VerifAssert("Permute:same-error", (e1 == nil) == (e2 == nil))
		model = verifModelOf(d)
	case 6:
		d := verifDenseFrom(model)
		v.Sort(a1 == 1)
		d.Sort(a1 == 1)
		model = verifModelOf(d)
	case 7:
		d := verifDenseFrom(model)
		v.ReverseOrder()
		d.ReverseOrder()
		model = verifModelOf(d)
	case 8: // Slice(i,j): reads of the slice; the parent is unchanged by taking it
		if a1 <= a2 {
			s := v.Slice(a1, a2)
			verifC11Observe("Slice:result", s, append([]float64{}, model[a1:a2]...))
		}
	case 9: // Append: new vector, source unchanged
		w := VerifFinite64("w")
		r := v.AppendScalar(NewFloat64(w))
		m2 := append(append([]float64{}, model...), w)
		verifC11Observe("AppendScalar:result", r, m2)
		X := verifVecVals3(2, "x", 2, a1, false)
		r2 := v.AppendVector(X.vector(2))
		m3 := append(append([]float64{}, model...), X.x...)
		verifC11Observe("AppendVector:result", r2, m3)
	case 10: // in-place arithmetic
		s := VerifFinite64("s")
		v.VmulS(v, NewFloat64(s))
		for i := range model {
			model[i] = model[i] * s
		}
	case 11: // write zero through a returned scalar
		x := v.At(a1)
		x.SetFloat64(0)
		model[a1] = 0
	case 12: // partially consumed iterator, then a write, then abandon it
		it := v.Iterator()
		for k := 0; k < a1 && it.Ok(); k++ {
			it.Next()
		}
		w := VerifFinite64("w")
		v.At(a2).SetFloat64(w)
		model[a2] = w
		if it.Ok() {
			it.Next()
		}
	case 13: // joint iteration with another vector visits the union of supports
		X := verifVecVals3(a2, "x", n, a1, false)
		x := X.vector(a2)
		var want []int
		for i := 0; i < n; i++ {
			if model[i] != 0 || X.x[i] != 0 {
				want = append(want, i)
			}
		}
		k := 0
		for it := v.JointIterator(x); it.Ok(); it.Next() {
			if k < len(want) {
				VerifAssert("JointIterator:index", it.Index() == want[k])
			}
			s1, s2 := it.GetConst()
			i := it.Index()
			if i >= 0 && i < n {
				y1 := 0.0
				if s1 != nil {
					y1 = s1.GetFloat64()
				}
				VerifAssertEqF("JointIterator:first", y1, model[i])
				VerifAssertEqF("JointIterator:second", s2.GetFloat64(), X.x[i])
			}
			k++
			if k > n+2 {
				break
			}
		}
		VerifAssert("JointIterator:count", k == len(want))
	case 14: // iterator parked on an entry that is zeroed and then pruned by a second iteration
		it := v.Iterator()
		for k := 0; k < a1 && it.Ok(); k++ {
			it.Next()
		}
		if it.Ok() {
			cur := it.Index()
			if cur >= 0 && cur < n {
				v.At(cur).SetFloat64(0)
				model[cur] = 0
			}
			for it2 := v.ConstIterator(); it2.Ok(); it2.Next() {
			}
			prev := cur
			cnt := 0
			var got []int
			for it.Next(); it.Ok(); it.Next() {
				VerifAssert("parked-iterator:ascending", it.Index() > prev)
				prev = it.Index()
				got = append(got, it.Index())
				cnt++
				if cnt > n+2 {
					break
				}
			}
			for i := cur + 1; i < n; i++ {
				if i >= 0 && model[i] != 0 {
					VerifAssert("parked-iterator:visits-remaining", verifMember(got, i))
				}
			}
		}
	default:
		panic("bad op")
	}
	verifC11Observe("after", v, model)
	verifC11Inv("inv", v)
	VerifReach("C11-post")
}

// sparse matrix: the same step on element access of a 2x2 / 2x3 matrix
func verif_C11_matrix(r, c, pat, op, a1, a2 int) {
	m := NullSparseFloat64Matrix(r, c)
	model := make([]float64, r*c)
	for k := 0; k < r*c; k++ {
		switch verifDigit(pat, k) {
		case 0:
			x := VerifFinite64("v")
			VerifAssume(x != 0)
			m.At(k/c, k%c).SetFloat64(x)
			model[k] = x
		case 2:
			m.At(k/c, k%c).SetFloat64(0)
		}
	}
	switch op {
	case 0:
		w := VerifFinite64("w")
		m.At(a1/c, a1%c).SetFloat64(w)
		model[a1] = w
	case 1:
		m.Reset()
		for i := range model {
			model[i] = 0
		}
	case 2:
		m.Swap(a1/c, a1%c, a2/c, a2%c)
		model[a1], model[a2] = model[a2], model[a1]
	case 3:
		x := m.At(a1/c, a1%c)
		x.SetFloat64(0)
		model[a1] = 0
	}
	n1, n2 := m.Dims()
	VerifAssert("matrix:dims", n1 == r && n2 == c)
	for k := 0; k < r*c; k++ {
		VerifAssertEqF("matrix:read", m.Float64At(k/c, k%c), model[k])
	}
	var want []int
	for k := range model {
		if model[k] != 0 {
			want = append(want, k)
		}
	}
	cnt := 0
	for it := m.ConstIterator(); it.Ok(); it.Next() {
		i, j := it.Index()
		if cnt < len(want) {
			VerifAssert("matrix:iter-index", i*c+j == want[cnt])
		}
		cnt++
		if cnt > r*c+2 {
			break
		}
	}
	VerifAssert("matrix:iter-count", cnt == len(want))
	VerifReach("C11-matrix")
}

func init() {
	VerifRegister("verif_C11_step", func(a []int) { verif_C11_step(a[0], a[1], a[2], a[3], a[4], a[5]) })
	VerifRegister("verif_C11_matrix", func(a []int) { verif_C11_matrix(a[0], a[1], a[2], a[3], a[4], a[5]) })
}
