
// T: invariant preserved, T().index(j,i) = index(i,j)
func verif_C10_T_MTYPE(tr int) {
	B := 1 << 20
	m := verifHdr_MTYPE(tr)
	t := m.T().(*MTYPE)
	verifHdrInv_MTYPE("T-inv", t)
	VerifAssert("T-rows", t.rows == m.cols)
	VerifAssert("T-cols", t.cols == m.rows)
	VerifAssert("T-storage-size", t.rowMax*t.colMax == m.rowMax*m.colMax)
	i := VerifInt("i", 0, B)
	j := VerifInt("j", 0, B)
	VerifAssume(i < m.rows)
	VerifAssume(j < m.cols)
	VerifAssert("T-addresses-transposed-element", t.index(j, i) == m.index(i, j))
	VerifReach("T")
}
