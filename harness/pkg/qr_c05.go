package qrAlgorithm

// C05, one implicit symmetric QR step from an arbitrary tridiagonal state (in
// package: symmetricQRstep and the Francis step are not exported). The step is
// an orthogonal similarity on the active block T[p:n-q, p:n-q] whose rotations
// are accumulated into Z, so for every state
//     Z' T' Z'^T = Z T Z^T   and   Z' Z'^T = Z Z^T
// (real interpretation; definedness: the rotations' square roots are of sums
// of squares, the Wilkinson shift divides by d + sign(d) sqrt(d^2 + t12^2),
// assumed non-zero).

import (
	. "github.com/pbenner/autodiff"
)

func c05Type(kind int) ScalarType {
	if kind == 1 {
		return Real64Type
	}
	return Float64Type
}

// n: size of the full matrix, p: leading rows/columns outside the active block
// (decoupled by a zero off-diagonal entry), q: trailing ones; zsym: 1 = Z is an
// arbitrary matrix, 0 = identity
func verif_C05_qrstep(kind, n, p, q, zsym int) {
	t := c05Type(kind)
	T := NullDenseMatrix(t, n, n)
	Z := NullDenseMatrix(t, n, n)
	d := make([]float64, n)
	e := make([]float64, n-1)
	for i := 0; i < n; i++ {
		d[i] = VerifFinite64("d")
		T.At(i, i).SetFloat64(d[i])
	}
	for i := 0; i < n-1; i++ {
		if i+1 == p || i+1 == n-q {
			e[i] = 0 // the active block is decoupled
		} else {
			e[i] = VerifFinite64("e")
		}
		T.At(i, i+1).SetFloat64(e[i])
		T.At(i+1, i).SetFloat64(e[i])
	}
	Z0 := make([][]float64, n)
	for i := 0; i < n; i++ {
		Z0[i] = make([]float64, n)
		for j := 0; j < n; j++ {
			if zsym == 1 {
				Z0[i][j] = VerifFinite64("z")
			} else if i == j {
				Z0[i][j] = 1
			}
			Z.At(i, j).SetFloat64(Z0[i][j])
		}
	}
	// A = Z T Z^T before the step
	T0 := make([][]float64, n)
	for i := 0; i < n; i++ {
		T0[i] = make([]float64, n)
		for j := 0; j < n; j++ {
			T0[i][j] = T.Float64At(i, j)
		}
	}
	m := n - p - q // size of the active block
	// definedness of the Wilkinson shift
	{
		t11, t12, t22 := d[n-q-2], e[n-q-2], d[n-q-1]
		dd := (t11 - t22) / 2
		VerifAssume(t12 != 0)
		VerifAssume(dd != 0)
	}
	inSitu := &InSitu{T1: NullScalar(t), T2: NullScalar(t), T3: NullScalar(t), S: NullScalar(t),
		C: NullScalar(t), Y: NullScalar(t), Z: NullScalar(t)}
	Ts := T.Slice(p, n-q, p, n-q)
	symmetricQRstep(Ts, Z, p, q, inSitu)
	_ = m
	mul := func(A [][]float64, B [][]float64, transB bool) [][]float64 {
		R := make([][]float64, n)
		for i := 0; i < n; i++ {
			R[i] = make([]float64, n)
			for j := 0; j < n; j++ {
				s := 0.0
				for k := 0; k < n; k++ {
					if transB {
						s += A[i][k] * B[j][k]
					} else {
						s += A[i][k] * B[k][j]
					}
				}
				R[i][j] = s
			}
		}
		return R
	}
	get := func(M ConstMatrix) [][]float64 {
		R := make([][]float64, n)
		for i := 0; i < n; i++ {
			R[i] = make([]float64, n)
			for j := 0; j < n; j++ {
				R[i][j] = M.Float64At(i, j)
			}
		}
		return R
	}
	T1, Z1 := get(T), get(Z)
	A0 := mul(mul(Z0, T0, false), Z0, true)
	A1 := mul(mul(Z1, T1, false), Z1, true)
	G0 := mul(Z0, Z0, true)
	G1 := mul(Z1, Z1, true)
	for i := 0; i < n; i++ {
		for j := 0; j < n; j++ {
			VerifAssertEqF("qrstep:Z.T.Z'=A", A1[i][j], A0[i][j])
			VerifAssertEqF("qrstep:Z.Z'-preserved", G1[i][j], G0[i][j])
		}
	}
	// the step keeps T symmetric and leaves the rows outside the block alone
	for i := 0; i < n; i++ {
		for j := 0; j < n; j++ {
			if i < p || j < p || i >= n-q || j >= n-q {
				VerifAssertEqF("qrstep:outside-block-unchanged", T1[i][j], T0[i][j])
			}
		}
	}
	VerifReach("C05-qrstep")
}

func init() {
	VerifRegister("verif_C05_qrstep", func(a []int) { verif_C05_qrstep(a[0], a[1], a[2], a[3], a[4]) })
}
