package generic

// C15: the float-specialised forward-backward recursion (hmm_optimized.go, used
// by Baum-Welch with buffers that are reused from record to record) computes
// the same alpha / beta tables as the generic one, for every content the
// reused buffers hold on entry. In package: the recursions are not exported.

import (
	"math"

	. "github.com/pbenner/autodiff"
)

type verifRecord struct {
	e [][]float64
	n int
}

func (r verifRecord) MapIndex(k int) int { return k }
func (r verifRecord) GetN() int          { return r.n }
func (r verifRecord) LogPdf(s Scalar, c, k int) error {
	s.SetFloat64(r.e[c][k])
	return nil
}

// finals: bit i set => state i is a final state (0: no restriction)
func verif_C15_float64fb(m, n, N, finals int) {
	lg := func(name string) float64 {
		w := VerifFinite64(name)
		VerifAssume(w > 0)
		return math.Log(w)
	}
	pi := NullDenseVector(Float64Type, m)
	for i := 0; i < m; i++ {
		pi.At(i).SetFloat64(lg("pi"))
	}
	tr := NullDenseMatrix(Float64Type, m, m)
	for i := 0; i < m; i++ {
		for j := 0; j < m; j++ {
			tr.At(i, j).SetFloat64(lg("tr"))
		}
	}
	p, err1 := NewHmmProbabilityVector(pi, true)
	t, err2 := NewHmmTransitionMatrix(tr, true)
	if err1 != nil || err2 != nil {
		return
	}
	h, err := NewHmm(p, t, nil)
	if err != nil {
		return
	}
	if finals != 0 {
		fs := []int{}
		for i := 0; i < m; i++ {
			if (finals>>uint(i))&1 == 1 {
				fs = append(fs, i)
			}
		}
		if h.SetFinalStates(fs) != nil {
			return
		}
	}
	rec := verifRecord{n: n}
	rec.e = make([][]float64, m)
	for c := 0; c < m; c++ {
		rec.e[c] = make([]float64, n)
		for k := 0; k < n; k++ {
			rec.e[c][k] = lg("e")
		}
	}
	// buffers as Baum-Welch keeps them: allocated for the longest record (N
	// columns), holding the tables of an earlier record
	alpha := NullDenseFloat64Matrix(m, N)
	beta := NullDenseFloat64Matrix(m, N)
	for i := 0; i < m; i++ {
		for k := 0; k < N; k++ {
			alpha.At(i, k).SetFloat64(VerifFinite64("stale"))
			beta.At(i, k).SetFloat64(VerifFinite64("stale"))
		}
	}
	a1, b1, e1 := h.float64ForwardBackward(rec, alpha, beta)
	a2, b2, e2 := h.forwardBackward(rec, NullDenseMatrix(Float64Type, m, N), NullDenseMatrix(Float64Type, m, N), NullFloat64(), NullFloat64())
	VerifAssert("float64-vs-generic:same-error", (e1 == nil) == (e2 == nil))
	if e1 == nil && e2 == nil {
		for i := 0; i < m; i++ {
			for k := 0; k < n; k++ {
				VerifAssertEqF("float64-vs-generic:alpha", a1.Float64At(i, k), a2.Float64At(i, k))
				VerifAssertEqF("float64-vs-generic:beta", b1.Float64At(i, k), b2.Float64At(i, k))
			}
		}
	}
	VerifReach("C15-float64fb")
}

func init() {
	VerifRegister("verif_C15_float64fb", func(a []int) { verif_C15_float64fb(a[0], a[1], a[2], a[3]) })
}
