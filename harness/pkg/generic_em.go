package generic

// C16 / C17: one E-step + weight M-step of the mixture EM (Mixture.EmStep) on a
// data set with symbolic component densities, optional multiplicities
// (summarised data) and a pool of k threads whose job assignment is symbolic:
//   - the new weights are the exact maximisers  w_i' = sum_l c_l g_il / sum_l c_l
//     with the responsibilities g_il = w_i e_il / sum_j w_j e_jl        (C16)
//   - the returned value is the log-likelihood sum_l c_l log sum_j w_j e_jl
//   - the responsibilities handed to the component estimators are c_l g_il
//   - all of this for every assignment of observations to threads, and no
//     cell written by one thread's jobs is touched by another's           (C17)
// Real interpretation (exp-homomorphism, LogAdd summarised). In package: EmTmp
// has no exported constructor outside the estimators.

import (
	"math"

	. "github.com/pbenner/autodiff"
	"github.com/pbenner/threadpool"
)

type verifMixData struct {
	e      [][]float64 // e[c][l] = log density of component c at observation l
	counts []int
	n      int
}

func (d verifMixData) LogPdf(r Scalar, c, i int) error { r.SetFloat64(d.e[c][i]); return nil }
func (d verifMixData) GetCounts() []int                 { return d.counts }
func (d verifMixData) GetN() int                        { return d.n }

// cmode 0: no counts, 1: counts 1,2,3,.. , 2: all counts equal 2
// stale 1: the accumulators hold arbitrary values of an earlier step
func verif_C16_emstep(m, n, k, cmode, stale int) {
	pos := func(name string) float64 {
		w := VerifFinite64(name)
		VerifAssume(w > 0)
		return w
	}
	w := make([]float64, m)
	wv := NullDenseVector(Float64Type, m)
	wsum := 0.0
	for i := 0; i < m; i++ {
		w[i] = pos("w")
		wsum += w[i]
		wv.At(i).SetFloat64(w[i])
	}
	mix2, err := NewMixture(wv)
	if err != nil {
		return
	}
	mix1 := mix2.Clone()
	d := verifMixData{n: n}
	E := make([][]float64, m) // densities (not logs)
	d.e = make([][]float64, m)
	for c := 0; c < m; c++ {
		E[c] = make([]float64, n)
		d.e[c] = make([]float64, n)
		for l := 0; l < n; l++ {
			E[c][l] = pos("e")
			d.e[c][l] = math.Log(E[c][l])
		}
	}
	cnt := make([]float64, n)
	for l := 0; l < n; l++ {
		cnt[l] = 1
	}
	if cmode != 0 {
		d.counts = make([]int, n)
		for l := 0; l < n; l++ {
			if cmode == 1 {
				d.counts[l] = l + 1
			} else {
				d.counts[l] = 2
			}
			cnt[l] = float64(d.counts[l])
		}
	}
	VerifPool(k)
	var p threadpool.ThreadPool
	if k <= 1 {
		p = threadpool.Nil()
	} else {
		p = threadpool.New(k, 100)
	}
	tmp := make([]EmTmp, p.NumberOfThreads())
	for t := range tmp {
		tmp[t].gammaTmp = NullDenseFloat64Vector(m)
		tmp[t].logWeights = NullDenseFloat64Vector(m)
		tmp[t].gamma = make([]DenseFloat64Vector, m)
		for i := 0; i < m; i++ {
			tmp[t].gamma[i] = NullDenseFloat64Vector(n)
		}
		if stale == 1 {
			// the per-thread accumulators as a previous EM step left them
			tmp[t].likelihood = VerifFinite64("stale")
			tmp[t].init = true
			for i := 0; i < m; i++ {
				tmp[t].logWeights.AT(i).SetFloat64(VerifFinite64("stale"))
				tmp[t].gammaTmp.AT(i).SetFloat64(VerifFinite64("stale"))
				for l := 0; l < n; l++ {
					tmp[t].gamma[i].AT(l).SetFloat64(VerifFinite64("stale"))
				}
			}
		}
	}
	lik, err := mix2.EmStep(mix1, mix2, d, nil, tmp, p)
	VerifAssert("emstep:no-error", err == nil)
	if err != nil {
		return
	}
	VerifAssert("emstep:no-interference-between-threads", VerifPoolInterference() == 0)
	// oracle
	total := 0.0
	wantLik := 0.0
	resp := make([][]float64, m)
	for i := range resp {
		resp[i] = make([]float64, n)
	}
	nw := make([]float64, m)
	for l := 0; l < n; l++ {
		z := 0.0
		for j := 0; j < m; j++ {
			z += (w[j] / wsum) * E[j][l]
		}
		wantLik += cnt[l] * math.Log(z)
		total += cnt[l]
		for i := 0; i < m; i++ {
			resp[i][l] = cnt[l] * (w[i] / wsum) * E[i][l] / z
			nw[i] += resp[i][l]
		}
	}
	VerifAssertEqF("emstep:log-likelihood", lik, wantLik)
	for i := 0; i < m; i++ {
		VerifAssertEqF("emstep:weight-is-exact-maximiser", math.Exp(mix1.LogWeights.Float64At(i))*total, nw[i])
		for l := 0; l < n; l++ {
			VerifAssertEqF("emstep:responsibility", math.Exp(tmp[0].gamma[i].Float64At(l)), resp[i][l])
		}
	}
	VerifReach("C16-emstep")
}

func init() {
	VerifRegister("verif_C16_emstep", func(a []int) { verif_C16_emstep(a[0], a[1], a[2], a[3], a[4]) })
}
