package autodiff

// Harness runtime (overlay file, never committed to the repository). The
// symbolic executor intercepts every Verif* function; natively they read the
// counterexample of a replay file so the same harness source runs against the
// real build.

import (
	"encoding/json"
	"fmt"
	"math"
	"os"
	"strconv"
	"strings"
)

var verifVars map[string]string
var verifCount = map[string]int{}
var verifUFTable []verifUFEntry
var VerifFailures []string
var VerifTraceLog []string
var VerifTol float64 // relative tolerance of VerifAssertEqF in native replay of real-mode candidates
var verifHarnesses = map[string]func(a []int){}

type verifUFEntry struct {
	Name string
	Args []float64
	Val  float64
}

// values are written as IEEE bit patterns "f:<hex>" (NaN and the infinities
// have no JSON number); plain numbers are accepted too
func (e *verifUFEntry) UnmarshalJSON(b []byte) error {
	var raw struct {
		Name string        `json:"name"`
		Args []interface{} `json:"args"`
		Val  interface{}   `json:"val"`
	}
	if err := json.Unmarshal(b, &raw); err != nil {
		return err
	}
	num := func(x interface{}) float64 {
		switch v := x.(type) {
		case float64:
			return v
		case string:
			if strings.HasPrefix(v, "f:") {
				u, _ := strconv.ParseUint(v[2:], 16, 64)
				return math.Float64frombits(u)
			}
		}
		return 0
	}
	e.Name = raw.Name
	e.Args = nil
	for _, a := range raw.Args {
		e.Args = append(e.Args, num(a))
	}
	e.Val = num(raw.Val)
	return nil
}

func VerifRegister(name string, f func(a []int)) { verifHarnesses[name] = f }
func VerifHarness(name string) func(a []int)     { return verifHarnesses[name] }

func VerifLoadReplay(path string) error {
	verifVars = map[string]string{}
	verifCount = map[string]int{}
	VerifFailures = nil
	VerifTraceLog = nil
	if path == "" {
		return nil
	}
	b, err := os.ReadFile(path)
	if err != nil {
		return err
	}
	var r struct {
		Vars map[string]string `json:"vars"`
		UF   []verifUFEntry    `json:"uf"`
		Tol  float64           `json:"tol"`
	}
	if err := json.Unmarshal(b, &r); err != nil {
		return err
	}
	if r.Vars != nil {
		verifVars = r.Vars
	}
	verifUFTable = r.UF
	VerifTol = r.Tol
	return nil
}

func verifName(name string) string {
	n := verifCount[name]
	verifCount[name] = n + 1
	if n == 0 {
		return name
	}
	return fmt.Sprintf("%s#%d", name, n)
}

func verifAuto() (string, bool) { seed, ok := verifVars["*auto"]; return seed, ok }

func verifFloatB(name string, bits int) float64 {
	full := verifName(name)
	raw, ok := verifVars[full]
	if !ok || !strings.HasPrefix(raw, "f:") {
		if seed, auto := verifAuto(); auto {
			x := autoFloat(seed, full)
			if bits == 32 {
				x = float64(float32(x))
			}
			return x
		}
		return 0
	}
	u, _ := strconv.ParseUint(raw[2:], 16, 64)
	return math.Float64frombits(u)
}

func VerifFloat64(name string) float64  { return verifFloatB(name, 64) }
func VerifFloat32(name string) float32  { return float32(verifFloatB(name, 32)) }
func VerifFinite64(name string) float64 { return verifFloatB(name, 64) }
func VerifFinite32(name string) float32 { return float32(verifFloatB(name, 32)) }

func VerifInt(name string, lo, hi int) int {
	full := verifName(name)
	raw, ok := verifVars[full]
	if !ok {
		if seed, auto := verifAuto(); auto {
			return int(autoInt(seed, full, int64(lo), int64(hi)))
		}
		return lo
	}
	n, _ := strconv.ParseInt(raw, 10, 64)
	return int(n)
}
func VerifAnyInt(name string) int {
	full := verifName(name)
	raw, ok := verifVars[full]
	if !ok {
		if seed, auto := verifAuto(); auto {
			return int(autoInt(seed, full, -1000, 1000))
		}
		return 0
	}
	n, _ := strconv.ParseInt(raw, 10, 64)
	return int(n)
}
func VerifIntN(name string, bits int) int64 {
	full := verifName(name)
	raw, ok := verifVars[full]
	if !ok {
		if seed, auto := verifAuto(); auto {
			if bits < 64 {
				return autoIntN(seed, full, bits)
			}
			return autoInt(seed, full, -1000, 1000)
		}
		return 0
	}
	n, _ := strconv.ParseInt(raw, 10, 64)
	return n
}
func VerifBool(name string) bool {
	full := verifName(name)
	raw, ok := verifVars[full]
	if !ok {
		if seed, auto := verifAuto(); auto {
			return autoBool(seed, full)
		}
	}
	return raw == "true"
}
func VerifChoice(name string, n int) int { return VerifInt(name, 0, n-1) }
func VerifConc(x int) int              { return x }
func VerifAssume(cond bool) {
	if !cond {
		panic("VERIF-ASSUME-FALSE")
	}
}
func VerifAssert(label string, cond bool) {
	if !cond {
		VerifFailures = append(VerifFailures, label)
	}
}
func verifSame(a, b float64) bool {
	if a == b || (a != a && b != b) {
		return true
	}
	if VerifTol > 0 {
		d := math.Abs(a - b)
		return d <= VerifTol*math.Max(1, math.Max(math.Abs(a), math.Abs(b)))
	}
	return false
}
func VerifAssertEqF(label string, a, b float64) {
	VerifTraceLog = append(VerifTraceLog, fmt.Sprintf("%s:%x,%x", label, math.Float64bits(a), math.Float64bits(b)))
	if !verifSame(a, b) {
		VerifFailures = append(VerifFailures, label)
	}
}
func VerifAssertEqF32(label string, a, b float32) { VerifAssertEqF(label, float64(a), float64(b)) }
func VerifAssertSameBits(label string, a, b float64) {
	if math.Float64bits(a) != math.Float64bits(b) && !(a != a && b != b) {
		VerifFailures = append(VerifFailures, label)
	}
}
func VerifReach(label string) {}
func VerifPanics(f func()) (p bool) {
	defer func() {
		if r := recover(); r != nil {
			if s, ok := r.(string); ok && s == "VERIF-ASSUME-FALSE" {
				panic(r)
			}
			p = true
		}
	}()
	f()
	return false
}
func VerifUF(name string, args ...float64) float64 {
	if seed, auto := verifAuto(); auto && len(verifUFTable) == 0 {
		key := name
		for _, x := range args {
			key += fmt.Sprintf(":%x", math.Float64bits(x))
		}
		return autoFloat(seed, "uf/"+key)
	}
	best, bd := 0.0, math.Inf(1)
	for _, e := range verifUFTable {
		if e.Name != name || len(e.Args) != len(args) {
			continue
		}
		d := 0.0
		for i := range args {
			if math.Float64bits(args[i]) == math.Float64bits(e.Args[i]) || (args[i] != args[i] && e.Args[i] != e.Args[i]) {
				continue
			}
			if x := math.Abs(args[i] - e.Args[i]); x == x {
				d += x
			} else {
				d = math.Inf(1)
			}
		}
		if d < bd || (best == 0 && bd == math.Inf(1) && d == bd) {
			bd, best = d, e.Val
		}
	}
	return best
}
func VerifNote(key string, v int) {}
func VerifTrace(label string, x float64) {
	VerifTraceLog = append(VerifTraceLog, fmt.Sprintf("%s=%x", label, math.Float64bits(x)))
}
func VerifIsSymbolic() bool   { return false }
func VerifItoa(i int) string { return strconv.Itoa(i) }

// thread-pool contract stub controls (no-ops natively: the real pool runs)
func VerifPool(k int)             {}
func VerifPoolInterference() int  { return 0 }
func VerifNilError() error        { return nil }

// write watch (executor only; natively the harness compares the object after the call)
func VerifWatch(label string, obj interface{}) {}
func VerifUnwatch(label string)                {}

// definedness obligations (executor only, real interpretation): see engine/exec/watch.go
func VerifDefinedAs(label string) {}

// same derivation as engine/exec/auto.go
func autoHash(seed, name string) uint64 {
	h := uint64(14695981039346656037)
	for _, s := range []string{seed, "/", name} {
		for i := 0; i < len(s); i++ {
			h ^= uint64(s[i])
			h *= 1099511628211
		}
	}
	// final avalanche (splitmix64)
	h ^= h >> 30
	h *= 0xbf58476d1ce4e5b9
	h ^= h >> 27
	h *= 0x94d049bb133111eb
	h ^= h >> 31
	return h
}

var autoSpecials = []float64{0.5, 1, 2, 3, 0.25, 1.5, 7.25, 0.125, -1, -2.5, 0, 4}

func autoFloat(seed, name string) float64 {
	h := autoHash(seed, name)
	if h%10 < 3 {
		return autoSpecials[(h>>8)%uint64(len(autoSpecials))]
	}
	// three decimals in (-4, 4), biased to positive values (most harness
	// assumptions ask for positive parameters)
	x := float64(int64((h>>8)%4001)) / 1000
	if (h>>40)%4 == 0 {
		x = -x
	}
	return x
}

func autoInt(seed, name string, lo, hi int64) int64 {
	if hi < lo {
		return lo
	}
	return lo + int64(autoHash(seed, name)%uint64(hi-lo+1))
}

func autoIntN(seed, name string, bits int) int64 {
	return int64(autoHash(seed, name)) >> uint(64-bits)
}

func autoBool(seed, name string) bool { return autoHash(seed, name)&1 == 1 }
