package autodiff

// Harness runtime (overlay file, never committed to the repository). The
// symbolic executor intercepts every Verif* function; natively they read the
// counterexample of a replay file so the same harness source runs against the
// real build.

import (
	"encoding/json"
	"fmt"
	"math"
	"os"
	"strconv"
	"strings"
)

var verifVars map[string]string
var verifCount = map[string]int{}
var verifUFTable []verifUFEntry
var VerifFailures []string
var VerifTraceLog []string
var VerifTol float64 // relative tolerance of VerifAssertEqF in native replay of real-mode candidates
var verifHarnesses = map[string]func(a []int){}

type verifUFEntry struct {
	Name string    `json:"name"`
	Args []float64 `json:"args"`
	Val  float64   `json:"val"`
}

func VerifRegister(name string, f func(a []int)) { verifHarnesses[name] = f }
func VerifHarness(name string) func(a []int)     { return verifHarnesses[name] }

func VerifLoadReplay(path string) error {
	verifVars = map[string]string{}
	verifCount = map[string]int{}
	VerifFailures = nil
	VerifTraceLog = nil
	if path == "" {
		return nil
	}
	b, err := os.ReadFile(path)
	if err != nil {
		return err
	}
	var r struct {
		Vars map[string]string `json:"vars"`
		UF   []verifUFEntry    `json:"uf"`
		Tol  float64           `json:"tol"`
	}
	if err := json.Unmarshal(b, &r); err != nil {
		return err
	}
	if r.Vars != nil {
		verifVars = r.Vars
	}
	verifUFTable = r.UF
	VerifTol = r.Tol
	return nil
}

func verifName(name string) string {
	n := verifCount[name]
	verifCount[name] = n + 1
	if n == 0 {
		return name
	}
	return fmt.Sprintf("%s#%d", name, n)
}

func verifFloat(name string) float64 {
	raw, ok := verifVars[verifName(name)]
	if !ok || !strings.HasPrefix(raw, "f:") {
		return 0
	}
	u, _ := strconv.ParseUint(raw[2:], 16, 64)
	return math.Float64frombits(u)
}

func VerifFloat64(name string) float64 { return verifFloat(name) }
func VerifFloat32(name string) float32 { return float32(verifFloat(name)) }
func VerifFinite64(name string) float64 { return verifFloat(name) }
func VerifFinite32(name string) float32 { return float32(verifFloat(name)) }

func VerifInt(name string, lo, hi int) int {
	raw, ok := verifVars[verifName(name)]
	if !ok {
		return lo
	}
	n, _ := strconv.ParseInt(raw, 10, 64)
	return int(n)
}
func VerifAnyInt(name string) int {
	raw, ok := verifVars[verifName(name)]
	if !ok {
		return 0
	}
	n, _ := strconv.ParseInt(raw, 10, 64)
	return int(n)
}
func VerifIntN(name string, bits int) int64 {
	raw, ok := verifVars[verifName(name)]
	if !ok {
		return 0
	}
	n, _ := strconv.ParseInt(raw, 10, 64)
	return n
}
func VerifBool(name string) bool       { return verifVars[verifName(name)] == "true" }
func VerifChoice(name string, n int) int { return VerifInt(name, 0, n-1) }
func VerifConc(x int) int              { return x }
func VerifAssume(cond bool) {
	if !cond {
		panic("VERIF-ASSUME-FALSE")
	}
}
func VerifAssert(label string, cond bool) {
	if !cond {
		VerifFailures = append(VerifFailures, label)
	}
}
func verifSame(a, b float64) bool {
	if a == b || (a != a && b != b) {
		return true
	}
	if VerifTol > 0 {
		d := math.Abs(a - b)
		return d <= VerifTol*math.Max(1, math.Max(math.Abs(a), math.Abs(b)))
	}
	return false
}
func VerifAssertEqF(label string, a, b float64) {
	VerifTraceLog = append(VerifTraceLog, fmt.Sprintf("%s:%x,%x", label, math.Float64bits(a), math.Float64bits(b)))
	if !verifSame(a, b) {
		VerifFailures = append(VerifFailures, label)
	}
}
func VerifAssertEqF32(label string, a, b float32) { VerifAssertEqF(label, float64(a), float64(b)) }
func VerifAssertSameBits(label string, a, b float64) {
	if math.Float64bits(a) != math.Float64bits(b) && !(a != a && b != b) {
		VerifFailures = append(VerifFailures, label)
	}
}
func VerifReach(label string) {}
func VerifPanics(f func()) (p bool) {
	defer func() {
		if r := recover(); r != nil {
			if s, ok := r.(string); ok && s == "VERIF-ASSUME-FALSE" {
				panic(r)
			}
			p = true
		}
	}()
	f()
	return false
}
func VerifUF(name string, args ...float64) float64 {
	best, bd := 0.0, math.Inf(1)
	for _, e := range verifUFTable {
		if e.Name != name || len(e.Args) != len(args) {
			continue
		}
		d := 0.0
		for i := range args {
			d += math.Abs(args[i] - e.Args[i])
		}
		if d < bd {
			bd, best = d, e.Val
		}
	}
	return best
}
func VerifNote(key string, v int) {}
func VerifTrace(label string, x float64) {
	VerifTraceLog = append(VerifTraceLog, fmt.Sprintf("%s=%x", label, math.Float64bits(x)))
}
func VerifIsSymbolic() bool   { return false }
func VerifItoa(i int) string { return strconv.Itoa(i) }

// thread-pool contract stub controls (no-ops natively: the real pool runs)
func VerifPool(k int)             {}
func VerifPoolInterference() int  { return 0 }
func VerifNilError() error        { return nil }
