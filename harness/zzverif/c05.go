package zzverif

// C05: factorisations reproduce their input with the promised structure
// (direct factorisations; real interpretation).

import (
	. "github.com/pbenner/autodiff"
	"github.com/pbenner/autodiff/algorithm/cholesky"
	"github.com/pbenner/autodiff/algorithm/givensRotation"
	"github.com/pbenner/autodiff/algorithm/gramSchmidt"
)

func junkMatrix(kind, n int) Matrix {
	m, _ := symMatrix(kind, n, 0, "junk")
	return m
}

// variant 0: L.L' = A; 1: LDL; junk = 1: caller-supplied InSitu buffers holding other values
func verif_C05_cholesky(kind, n, variant, junk int) {
	a, A := symMatrix(kind, n, 2, "a")
	var L, D Matrix
	var err error
	inSitu := &cholesky.InSitu{}
	if junk == 1 {
		inSitu.L = junkMatrix(kind, n)
		if variant == 1 {
			inSitu.D = junkMatrix(kind, n)
		}
	}
	var p bool
	switch variant {
	case 0:
		p = VerifPanics(func() { L, D, err = cholesky.Run(a, inSitu) })
	case 1:
		p = VerifPanics(func() { L, D, err = cholesky.Run(a, cholesky.LDL{true}, inSitu) })
	}
	if p || err != nil {
		VerifReach("cholesky-rejected")
		return
	}
	VerifReach("cholesky-returned")
	// structure
	for i := 0; i < n; i++ {
		for j := i + 1; j < n; j++ {
			VerifAssertEqF("L-lower-triangular", L.Float64At(i, j), 0)
		}
		if variant == 1 {
			VerifAssertEqF("L-unit-diagonal", L.Float64At(i, i), 1)
			for j := 0; j < n; j++ {
				if i != j {
					VerifAssertEqF("D-diagonal", D.Float64At(i, j), 0)
				}
			}
		}
	}
	// reconstruction (lower triangle of L only, as the definition says)
	for i := 0; i < n; i++ {
		for j := 0; j <= i; j++ {
			s := 0.0
			for k := 0; k <= j; k++ {
				t := L.Float64At(i, k) * L.Float64At(j, k)
				if variant == 1 {
					t = t * D.Float64At(k, k)
				}
				s += t
			}
			VerifAssertEqF("reconstructs-A", s, A[i][j])
		}
	}
	sameInput("input-unchanged", a, A)
}

// forced positive definite LDL: structure and positivity for symbolic input;
// reconstruction on concrete graded, safely positive definite matrices
func verif_C05_forcepd(kind, n int) {
	a, _ := symMatrix(kind, n, 2, "a")
	var L, D Matrix
	var err error
	p := VerifPanics(func() { L, D, err = cholesky.Run(a, cholesky.LDL{true}, cholesky.ForcePD{true}) })
	VerifAssert("forcepd-never-rejects", !p && err == nil)
	if p || err != nil {
		return
	}
	VerifReach("forcepd-returned")
	for i := 0; i < n; i++ {
		VerifAssertEqF("L-unit-diagonal", L.Float64At(i, i), 1)
		VerifAssert("D-positive", D.Float64At(i, i) > 0)
		for j := i + 1; j < n; j++ {
			VerifAssertEqF("L-lower-triangular", L.Float64At(i, j), 0)
		}
	}
}

func absf(x float64) float64 {
	if x < 0 {
		return -x
	}
	return x
}

// concrete strictly diagonally dominant graded matrices: L.D.L' = A
func verif_C05_forcepd_graded(kind, which int) {
	var vals [][]float64
	switch which {
	case 0:
		vals = [][]float64{{100, 13, 0.05}, {13, 2, 0.02}, {0.05, 0.02, 100}}
	case 1:
		vals = [][]float64{{100, 1, 2, 0.5}, {1, 100, 0.5, 0.25}, {2, 0.5, 2, 0.125}, {0.5, 0.25, 0.125, 2}}
	case 2:
		vals = [][]float64{{4, 1, 0.5}, {1, 3, 0.25}, {0.5, 0.25, 2}}
	}
	if which == 0 {
		// c_11 = 6 - 13^2/100 = 4.31 exceeds (theta_1/beta)^2 (theta_1 ~ 0.02), but not
		// (theta_0/beta)^2 = (13/10)^2 = 1.69 ... wait 4.31 > 1.69: use a smaller pivot
		vals[1][1] = 3
	}
	n := len(vals)
	a := NullDenseMatrix(elemType(kind), n, n)
	for i := 0; i < n; i++ {
		for j := 0; j < n; j++ {
			a.At(i, j).SetFloat64(vals[i][j])
		}
	}
	L, D, err := cholesky.Run(a, cholesky.LDL{true}, cholesky.ForcePD{true})
	VerifAssert("forcepd-no-error", err == nil)
	if err != nil {
		return
	}
	for i := 0; i < n; i++ {
		for j := 0; j <= i; j++ {
			s := 0.0
			for k := 0; k <= j; k++ {
				s += L.Float64At(i, k) * L.Float64At(j, k) * D.Float64At(k, k)
			}
			VerifAssert("forcepd-reconstructs-safely-pd-A", absf(s-vals[i][j]) <= 1e-9*(1+absf(vals[i][j])))
		}
	}
	VerifReach("forcepd-graded")
}

// Gram-Schmidt: Q.R = A, Q'Q = I, R upper triangular
func verif_C05_gramschmidt(kind, n int) {
	a, A := symMatrix(kind, n, 0, "a")
	var q, r Matrix
	var err error
	p := VerifPanics(func() { q, r, err = gramSchmidt.Run(a) })
	if p || err != nil {
		VerifReach("gs-rejected")
		return
	}
	VerifReach("gs-returned")
	for i := 0; i < n; i++ {
		for j := 0; j < n; j++ {
			s := 0.0
			for k := 0; k < n; k++ {
				s += q.Float64At(i, k) * r.Float64At(k, j)
			}
			VerifAssertEqF("Q.R=A", s, A[i][j])
			if j < i {
				VerifAssertEqF("R-upper-triangular", r.Float64At(i, j), 0)
			}
			o := 0.0
			for k := 0; k < n; k++ {
				o += q.Float64At(k, i) * q.Float64At(k, j)
			}
			if i == j {
				VerifAssertEqF("Q'Q=I:diag", o, 1)
			} else {
				VerifAssertEqF("Q'Q=I:offdiag", o, 0)
			}
		}
	}
	sameInput("input-unchanged", a, A)
}

// Givens rotation: c^2 + s^2 = 1 and the rotation zeroes the second entry
func verif_C05_givens(kind int) {
	t := elemType(kind)
	a := NewScalar(t, 0)
	b := NewScalar(t, 0)
	x, y := VerifFinite64("a"), VerifFinite64("b")
	a.SetFloat64(x)
	b.SetFloat64(y)
	c, s := NewScalar(t, 0), NewScalar(t, 0)
	givensRotation.Run(a, b, c, s)
	cv, sv := c.GetFloat64(), s.GetFloat64()
	VerifAssertEqF("c^2+s^2=1", cv*cv+sv*sv, 1)
	// [ c -s; s c ]' [a; b] = [r; 0]
	VerifAssertEqF("rotation-zeroes-b", sv*x+cv*y, 0)
	VerifReach("givens")
}

func init() {
	VerifRegister("verif_C05_cholesky", func(a []int) { verif_C05_cholesky(a[0], a[1], a[2], a[3]) })
	VerifRegister("verif_C05_forcepd", func(a []int) { verif_C05_forcepd(a[0], a[1]) })
	VerifRegister("verif_C05_forcepd_graded", func(a []int) { verif_C05_forcepd_graded(a[0], a[1]) })
	VerifRegister("verif_C05_gramschmidt", func(a []int) { verif_C05_gramschmidt(a[0], a[1]) })
	VerifRegister("verif_C05_givens", func(a []int) { verif_C05_givens(a[0]) })
}
