package zzverif

// C20, numeric side: the convergence loops of the SVD and of the symmetric QR
// algorithm exit through comparisons that a NaN never satisfies, so they rely
// on the rotation kernel never producing one. For every pair of inputs
// givensRotation.Run performs no 0/0 division and takes no square root of a
// negative number (definedness obligations of the real interpretation, see
// engine/exec/watch.go), and its coefficients lie in [-1, 1]. Natively the
// same label is "c and s are not NaN".

import (
	. "github.com/pbenner/autodiff"
	"github.com/pbenner/autodiff/algorithm/eigensystem"
	"github.com/pbenner/autodiff/algorithm/givensRotation"
	"github.com/pbenner/autodiff/algorithm/qrAlgorithm"
	"github.com/pbenner/autodiff/algorithm/svd"
)

func verif_C20_givens(kind int) {
	t := elemType(kind)
	x, y := VerifFinite64("a"), VerifFinite64("b")
	a := NewScalar(t, 0)
	b := NewScalar(t, 0)
	a.SetFloat64(x)
	b.SetFloat64(y)
	c, s := NewScalar(t, 0), NewScalar(t, 0)
	VerifDefinedAs("givens:no-NaN")
	givensRotation.Run(a, b, c, s)
	VerifDefinedAs("")
	cv, sv := c.GetFloat64(), s.GetFloat64()
	if !VerifIsSymbolic() {
		VerifAssert("givens:no-NaN", cv == cv && sv == sv)
	}
	VerifAssert("givens:|c|<=1", cv >= -1 && cv <= 1)
	VerifAssert("givens:|s|<=1", sv >= -1 && sv <= 1)
	VerifReach("C20-givens")
}

// Termination on structured rank-deficient input: the convergence loops of the
// SVD and of the (symmetric) QR algorithm have no iteration cap. The run that
// the followed inputs take (symbolic values at the non-zero positions of the
// pattern) must return within the executor's step bound; the native replay of
// a reported input confirms by timing out.
// pattern: 0 zero matrix, 1 zero first column, 2 zero last row, 3 rank one
// (outer product), 4 strictly upper triangular (nilpotent), 5 diagonal with a
// zero entry, 6 full
func verif_C20_terminates(alg, pattern, n int) {
	a := NullDenseMatrix(Float64Type, n, n)
	u := make([]float64, n)
	for i := range u {
		u[i] = VerifFinite64("u")
	}
	for i := 0; i < n; i++ {
		for j := 0; j < n; j++ {
			x := 0.0
			switch pattern {
			case 1:
				if j > 0 {
					x = VerifFinite64("a")
				}
			case 2:
				if i < n-1 {
					x = VerifFinite64("a")
				}
			case 3:
				x = u[i] * u[j]
			case 4:
				if j > i {
					x = VerifFinite64("a")
				}
			case 5:
				if i == j && i != 1 {
					x = VerifFinite64("a")
				}
			case 6:
				x = VerifFinite64("a")
			}
			a.At(i, j).SetFloat64(x)
		}
	}
	if alg == 1 || alg == 2 {
		// symmetric input for the symmetric routines
		for i := 0; i < n; i++ {
			for j := 0; j < i; j++ {
				a.At(i, j).SetFloat64(a.Float64At(j, i))
			}
		}
	}
	VerifPanics(func() {
		switch alg {
		case 0:
			svd.Run(a)
		case 1:
			qrAlgorithm.Run(a, qrAlgorithm.Symmetric{true})
		case 2:
			eigensystem.Run(a, eigensystem.Symmetric{true})
		case 3:
			qrAlgorithm.Run(a)
		}
	})
	VerifReach("C20-terminates")
}

func init() {
	VerifRegister("verif_C20_terminates", func(a []int) { verif_C20_terminates(a[0], a[1], a[2]) })
	VerifRegister("verif_C20_givens", func(a []int) { verif_C20_givens(a[0]) })
}
