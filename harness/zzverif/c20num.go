package zzverif

// C20, numeric side: the convergence loops of the SVD and of the symmetric QR
// algorithm exit through comparisons that a NaN never satisfies, so they rely
// on the rotation kernel never producing one. For every pair of inputs
// givensRotation.Run performs no 0/0 division and takes no square root of a
// negative number (definedness obligations of the real interpretation, see
// engine/exec/watch.go), and its coefficients lie in [-1, 1]. Natively the
// same label is "c and s are not NaN".

import (
	. "github.com/pbenner/autodiff"
	"github.com/pbenner/autodiff/algorithm/givensRotation"
)

func verif_C20_givens(kind int) {
	t := elemType(kind)
	x, y := VerifFinite64("a"), VerifFinite64("b")
	a := NewScalar(t, 0)
	b := NewScalar(t, 0)
	a.SetFloat64(x)
	b.SetFloat64(y)
	c, s := NewScalar(t, 0), NewScalar(t, 0)
	VerifDefinedAs("givens:no-NaN")
	givensRotation.Run(a, b, c, s)
	VerifDefinedAs("")
	cv, sv := c.GetFloat64(), s.GetFloat64()
	if !VerifIsSymbolic() {
		VerifAssert("givens:no-NaN", cv == cv && sv == sv)
	}
	VerifAssert("givens:|c|<=1", cv >= -1 && cv <= 1)
	VerifAssert("givens:|s|<=1", sv >= -1 && sv <= 1)
	VerifReach("C20-givens")
}

func init() {
	VerifRegister("verif_C20_givens", func(a []int) { verif_C20_givens(a[0]) })
}
