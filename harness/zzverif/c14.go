package zzverif

// C14: scalar distribution families: textbook log-density on the support,
// -Inf off the support, constructor validation, parameter round trips,
// independence of the scalar type holding the parameters, Cdf' = Pdf.

import (
	"math"

	. "github.com/pbenner/autodiff"
	. "github.com/pbenner/autodiff/statistics"
	"github.com/pbenner/autodiff/statistics/scalarDistribution"
)

type family struct {
	name    string
	nparams int
	integer bool                              // integer-valued family
	mk      func(t ScalarType, p []float64) (ScalarPdf, error)
	valid   func(p []float64) bool            // parameters strictly inside the valid region
	invalid func(p []float64) bool            // parameters strictly outside its closure
	support func(p []float64, x float64) bool // x strictly inside the support
	outside func(p []float64, x float64) bool // x strictly outside the support
	ref     func(p []float64, x float64) float64
}

func sc(t ScalarType, x float64) Scalar { return NewScalar(t, x) }

func lg(x float64) float64 { v, _ := math.Lgamma(x); return v }

func families() []family {
	return []family{
		{"Normal", 2, false,
			func(t ScalarType, p []float64) (ScalarPdf, error) { return scalarDistribution.NewNormalDistribution(sc(t, p[0]), sc(t, p[1])) },
			func(p []float64) bool { return p[1] > 0 }, func(p []float64) bool { return p[1] < 0 },
			func(p []float64, x float64) bool { return true }, func(p []float64, x float64) bool { return false },
			func(p []float64, x float64) float64 {
				z := (x - p[0]) / p[1]
				return -math.Log(p[1]) - 0.5*math.Log(2*math.Pi) - z*z/2
			}},
		{"Laplace", 2, false,
			func(t ScalarType, p []float64) (ScalarPdf, error) { return scalarDistribution.NewLaplaceDistribution(sc(t, p[0]), sc(t, p[1])) },
			func(p []float64) bool { return p[1] > 0 }, func(p []float64) bool { return p[1] < 0 },
			func(p []float64, x float64) bool { return true }, func(p []float64, x float64) bool { return false },
			func(p []float64, x float64) float64 { return -math.Log(2*p[1]) - math.Abs(x-p[0])/p[1] }},
		{"Cauchy", 2, false,
			func(t ScalarType, p []float64) (ScalarPdf, error) { return scalarDistribution.NewCauchyDistribution(sc(t, p[0]), sc(t, p[1])) },
			func(p []float64) bool { return p[1] > 0 }, func(p []float64) bool { return p[1] < 0 },
			func(p []float64, x float64) bool { return true }, func(p []float64, x float64) bool { return false },
			func(p []float64, x float64) float64 { return math.Log(p[1]/math.Pi) - math.Log((x-p[0])*(x-p[0])+p[1]*p[1]) }},
		{"Exponential", 1, false,
			func(t ScalarType, p []float64) (ScalarPdf, error) { return scalarDistribution.NewExponentialDistribution(sc(t, p[0])) },
			func(p []float64) bool { return p[0] > 0 }, func(p []float64) bool { return p[0] < 0 },
			func(p []float64, x float64) bool { return x > 0 }, func(p []float64, x float64) bool { return x < 0 },
			func(p []float64, x float64) float64 { return math.Log(p[0]) - p[0]*x }},
		{"Pareto", 2, false,
			func(t ScalarType, p []float64) (ScalarPdf, error) { return scalarDistribution.NewParetoDistribution(sc(t, p[0]), sc(t, p[1])) },
			func(p []float64) bool { return p[0] > 0 && p[1] > 0 }, func(p []float64) bool { return p[0] < 0 || p[1] < 0 },
			func(p []float64, x float64) bool { return x > p[0] }, func(p []float64, x float64) bool { return x < p[0] },
			func(p []float64, x float64) float64 { return math.Log(p[1]) + p[1]*math.Log(p[0]) - (p[1]+1)*math.Log(x) }},
		{"Gamma", 2, false,
			func(t ScalarType, p []float64) (ScalarPdf, error) { return scalarDistribution.NewGammaDistribution(sc(t, p[0]), sc(t, p[1])) },
			func(p []float64) bool { return p[0] > 0 && p[1] > 0 }, func(p []float64) bool { return p[0] < 0 || p[1] < 0 },
			func(p []float64, x float64) bool { return x > 0 }, func(p []float64, x float64) bool { return x < 0 },
			func(p []float64, x float64) float64 { return p[0]*math.Log(p[1]) - lg(p[0]) + (p[0]-1)*math.Log(x) - p[1]*x }},
		{"Poisson", 1, true,
			func(t ScalarType, p []float64) (ScalarPdf, error) { return scalarDistribution.NewPoissonDistribution(sc(t, p[0])) },
			func(p []float64) bool { return p[0] > 0 }, func(p []float64) bool { return p[0] < 0 },
			func(p []float64, x float64) bool { return x >= 0 }, func(p []float64, x float64) bool { return x < 0 },
			func(p []float64, x float64) float64 { return x*math.Log(p[0]) - p[0] - lg(x+1) }},
		{"Geometric", 1, true,
			func(t ScalarType, p []float64) (ScalarPdf, error) { return scalarDistribution.NewGeometricDistribution(sc(t, p[0])) },
			func(p []float64) bool { return p[0] > 0 && p[0] < 1 }, func(p []float64) bool { return p[0] < 0 || p[0] > 1 },
			func(p []float64, x float64) bool { return x >= 0 }, func(p []float64, x float64) bool { return x < 0 },
			func(p []float64, x float64) float64 { return math.Log(p[0]) + x*math.Log(1-p[0]) }},
		{"PowerLaw", 2, false,
			func(t ScalarType, p []float64) (ScalarPdf, error) { return scalarDistribution.NewPowerLawDistribution(sc(t, p[0]), sc(t, p[1])) },
			func(p []float64) bool { return p[0] > 1 && p[1] > 0 }, func(p []float64) bool { return p[0] < 1 || p[1] < 0 },
			func(p []float64, x float64) bool { return x > p[1] }, func(p []float64, x float64) bool { return x < p[1] },
			func(p []float64, x float64) float64 { return math.Log((p[0]-1)/p[1]) - p[0]*math.Log(x/p[1]) }},
		{"GPareto", 3, false,
			func(t ScalarType, p []float64) (ScalarPdf, error) {
				return scalarDistribution.NewGParetoDistribution(sc(t, p[0]), sc(t, p[1]), sc(t, p[2]))
			},
			func(p []float64) bool { return p[1] > 0 && p[2] > 0 }, func(p []float64) bool { return p[1] < 0 },
			func(p []float64, x float64) bool { return x > p[0] }, func(p []float64, x float64) bool { return x < p[0] },
			func(p []float64, x float64) float64 {
				z := (x - p[0]) / p[1]
				return -math.Log(p[1]) - (1/p[2]+1)*math.Log1p(p[2]*z)
			}},
		{"ChiSquared", 1, false,
			func(t ScalarType, p []float64) (ScalarPdf, error) { return scalarDistribution.NewChiSquaredDistribution(t, p[0]) },
			func(p []float64) bool { return p[0] > 0 }, func(p []float64) bool { return p[0] < 0 },
			func(p []float64, x float64) bool { return x > 0 }, func(p []float64, x float64) bool { return x < 0 },
			func(p []float64, x float64) float64 { return (p[0]/2-1)*math.Log(x) - x/2 - (p[0]/2)*math.Log(2) - lg(p[0]/2) }},
		{"GEV", 3, false,
			func(t ScalarType, p []float64) (ScalarPdf, error) {
				return scalarDistribution.NewGevDistribution(sc(t, p[0]), sc(t, p[1]), sc(t, p[2]))
			},
			func(p []float64) bool { return p[1] > 0 && p[2] != 0 }, func(p []float64) bool { return p[1] < 0 },
			func(p []float64, x float64) bool { return 1+p[2]*(x-p[0])/p[1] > 0 }, func(p []float64, x float64) bool { return 1+p[2]*(x-p[0])/p[1] < 0 },
			func(p []float64, x float64) float64 {
				u := 1 + p[2]*(x-p[0])/p[1]
				return -math.Log(p[1]) - (1+1/p[2])*math.Log(u) - math.Pow(u, -(1 / p[2]))
			}},
		{"Binomial(n=3)", 1, true,
			func(t ScalarType, p []float64) (ScalarPdf, error) { return scalarDistribution.NewBinomialDistribution(sc(t, p[0]), 3) },
			func(p []float64) bool { return p[0] > 0 && p[0] < 1 }, func(p []float64) bool { return p[0] < 0 || p[0] > 1 },
			func(p []float64, x float64) bool { return x >= 0 && x <= 3 }, func(p []float64, x float64) bool { return x < 0 },
			func(p []float64, x float64) float64 {
				return lg(4) - lg(x+1) - lg(3-x+1) + x*math.Log(p[0]) + (3-x)*math.Log(1-p[0])
			}},
		{"Binomial(n=3).SetN(5)", 1, true,
			func(t ScalarType, p []float64) (ScalarPdf, error) {
				d, err := scalarDistribution.NewBinomialDistribution(sc(t, p[0]), 3)
				if err != nil {
					return nil, err
				}
				if err := d.SetN(5); err != nil {
					return nil, err
				}
				return d, nil
			},
			func(p []float64) bool { return p[0] > 0 && p[0] < 1 }, func(p []float64) bool { return p[0] < 0 || p[0] > 1 },
			func(p []float64, x float64) bool { return x >= 0 && x <= 5 }, func(p []float64, x float64) bool { return x < 0 },
			func(p []float64, x float64) float64 {
				return lg(6) - lg(x+1) - lg(5-x+1) + x*math.Log(p[0]) + (5-x)*math.Log(1-p[0])
			}},
		{"Beta", 2, false,
			func(t ScalarType, p []float64) (ScalarPdf, error) { return scalarDistribution.NewBetaDistribution(sc(t, p[0]), sc(t, p[1]), false) },
			func(p []float64) bool { return p[0] > 0 && p[1] > 0 && p[0] != 1 && p[1] != 1 }, func(p []float64) bool { return p[0] < 0 || p[1] < 0 },
			func(p []float64, x float64) bool { return x > 0 && x < 1 }, func(p []float64, x float64) bool { return x < 0 || x > 1 },
			func(p []float64, x float64) float64 {
				return lg(p[0]+p[1]) - lg(p[0]) - lg(p[1]) + (p[0]-1)*math.Log(x) + (p[1]-1)*math.Log(1-x)
			}},
	}
}

func params(f family, name string) []float64 {
	p := make([]float64, f.nparams)
	for i := range p {
		p[i] = VerifFinite64(name)
	}
	return p
}

// real interpretation: log-density equals the textbook formula on the support
func verif_C14_formula(fam, kind int) {
	f := families()[fam]
	p := params(f, "p")
	VerifAssume(f.valid(p))
	x := VerifFinite64("x")
	VerifAssume(f.support(p, x))
	if f.integer {
		VerifAssume(math.Floor(x) == x)
	}
	d, err := f.mk(elemType(kind), p)
	VerifAssert(f.name+":valid-parameters-accepted", err == nil)
	if err != nil {
		return
	}
	r := NewScalar(elemType(kind), 0)
	err = d.LogPdf(r, ConstFloat64(x))
	VerifAssert(f.name+":logpdf-no-error", err == nil)
	if err != nil {
		return
	}
	VerifReach("formula")
	VerifAssertEqF(f.name+":logpdf=textbook", r.GetFloat64(), f.ref(p, x))
}

// fp interpretation: exactly -Inf outside the support (never finite, never NaN)
func verif_C14_support(fam, kind int) {
	f := families()[fam]
	p := params(f, "p")
	VerifAssume(f.valid(p))
	x := VerifFinite64("x")
	VerifAssume(f.outside(p, x))
	if f.integer {
		VerifAssume(math.Floor(x) == x)
	}
	d, err := f.mk(elemType(kind), p)
	if err != nil {
		return
	}
	r := NewScalar(elemType(kind), 0)
	if err := d.LogPdf(r, ConstFloat64(x)); err != nil {
		return // an error is a loud answer
	}
	VerifReach("support")
	VerifAssert(f.name+":outside-support-is-minus-inf", math.IsInf(r.GetFloat64(), -1))
}

// constructors reject parameters outside the closure of the valid region
// bit-precise: on the boundary of the support (neither strictly inside nor
// strictly outside) the log-density is never NaN
// grid 1: the parameters are taken from {1/2, 1, 2} (one path per combination)
// and only x is symbolic, which lets the bit-precise solver hit boundaries that
// are an equation between x and the parameters (GEV: xi (x - mu) / sigma = -1)
func verif_C14_boundary(fam, kind, grid int) {
	f := families()[fam]
	var p []float64
	if grid == 1 {
		vals := []float64{0.5, 1, 2}
		for i := 0; i < f.nparams; i++ {
			p = append(p, vals[VerifChoice("p", 3)])
		}
	} else {
		p = params(f, "p")
	}
	VerifAssume(f.valid(p))
	// parameters and the evaluation point in a bounded box (the statement's
	// quantifier): parameter magnitudes in [2^-10, 2^10], |x| <= 2^10
	for _, v := range p {
		a := math.Abs(v)
		VerifAssume(a >= 0.0009765625)
		VerifAssume(a <= 1024)
	}
	x := VerifFinite64("x")
	VerifAssume(math.Abs(x) <= 1024)
	VerifAssume(!f.support(p, x))
	VerifAssume(!f.outside(p, x))
	if f.integer {
		VerifAssume(math.Floor(x) == x)
	}
	d, err := f.mk(elemType(kind), p)
	if err != nil {
		return
	}
	r := NewScalar(elemType(kind), 0)
	if err := d.LogPdf(r, ConstFloat64(x)); err != nil {
		return // an error is a loud answer
	}
	VerifReach("boundary")
	v := r.GetFloat64()
	VerifAssert(f.name+":boundary-of-support-not-NaN", v == v)
}

func verif_C14_ctor(fam, kind int) {
	f := families()[fam]
	p := params(f, "p")
	VerifAssume(f.invalid(p))
	_, err := f.mk(elemType(kind), p)
	VerifReach("ctor")
	VerifAssert(f.name+":invalid-parameters-rejected", err != nil)
}

// parameter round trip, clone and independence of the parameter type
func verif_C14_roundtrip(fam int) {
	f := families()[fam]
	p := params(f, "p")
	VerifAssume(f.valid(p))
	x := VerifFinite64("x")
	VerifAssume(f.support(p, x))
	if f.integer {
		VerifAssume(math.Floor(x) == x)
	}
	d, err := f.mk(Float64Type, p)
	if err != nil {
		return
	}
	r0 := NewFloat64(0)
	if d.LogPdf(r0, ConstFloat64(x)) != nil {
		return
	}
	VerifReach("roundtrip")
	// Clone
	c := d.CloneScalarPdf()
	r1 := NewFloat64(0)
	c.LogPdf(r1, ConstFloat64(x))
	VerifAssertEqF(f.name+":clone-same-logpdf", r1.GetFloat64(), r0.GetFloat64())
	// SetParameters(GetParameters())
	q := d.GetParameters()
	e, _ := f.mk(Float64Type, p)
	if err := e.SetParameters(q); err == nil {
		r2 := NewFloat64(0)
		e.LogPdf(r2, ConstFloat64(x))
		VerifAssertEqF(f.name+":set-get-parameters-same-logpdf", r2.GetFloat64(), r0.GetFloat64())
	} else {
		VerifAssert(f.name+":set-get-parameters-accepted", false)
	}
	// Real64-held parameters give the same value
	g, err := f.mk(Real64Type, p)
	if err == nil {
		r3 := NewReal64(0)
		if g.LogPdf(r3, ConstFloat64(x)) == nil {
			VerifAssertEqF(f.name+":real64-parameters-same-logpdf", r3.GetFloat64(), r0.GetFloat64())
		}
	}
}

// the cumulative distribution function has the density as its derivative: the
// derivative that the automatic differentiation of Cdf(x) yields equals Pdf(x)
// (real interpretation, interior of the support); and Cdf = exp(LogCdf)
func verif_C14_cdf(fam int) {
	f := families()[fam]
	p := params(f, "p")
	VerifAssume(f.valid(p))
	xv := VerifFinite64("x")
	VerifAssume(f.support(p, xv))
	d, err := f.mk(Float64Type, p)
	if err != nil {
		return
	}
	type cdfer interface {
		Cdf(r Scalar, x ConstScalar) error
		LogCdf(r Scalar, x ConstScalar) error
	}
	c, ok := d.(cdfer)
	if !ok {
		return
	}
	x := NewReal64(xv)
	x.SetVariable(0, 1, 1)
	r := NewReal64(0)
	if c.Cdf(r, x) != nil {
		return
	}
	q := NewReal64(0)
	if d.LogPdf(q, ConstFloat64(xv)) != nil {
		return
	}
	VerifReach("cdf")
	VerifAssertEqF(f.name+":d/dx-Cdf=Pdf", r.GetDerivative(0), math.Exp(q.GetFloat64()))
	l := NewReal64(0)
	if c.LogCdf(l, ConstFloat64(xv)) == nil {
		VerifAssertEqF(f.name+":Cdf=exp(LogCdf)", r.GetFloat64(), math.Exp(l.GetFloat64()))
	}
}

func init() {
	VerifRegister("verif_C14_boundary", func(a []int) { verif_C14_boundary(a[0], a[1], a[2]) })
	VerifRegister("verif_C14_cdf", func(a []int) { verif_C14_cdf(a[0]) })
	VerifRegister("verif_C14_formula", func(a []int) { verif_C14_formula(a[0], a[1]) })
	VerifRegister("verif_C14_support", func(a []int) { verif_C14_support(a[0], a[1]) })
	VerifRegister("verif_C14_ctor", func(a []int) { verif_C14_ctor(a[0], a[1]) })
	VerifRegister("verif_C14_roundtrip", func(a []int) { verif_C14_roundtrip(a[0]) })
}
