package zzverif

// C07, Newton root finding in one variable, bit-precise floats: when RunRoot
// returns without error and before its iteration cap, the residual norm at the
// returned point, re-evaluated with the library's own norm, is below epsilon.
// Residual F and Jacobian J are uninterpreted functions of the point. The step
// back-off against a caller-supplied constraint and the "step vanished" exit
// are part of the explored code; both need floating point to be reached (a
// step below the resolution of x), which is why this harness is not run in the
// real interpretation.

import (
	. "github.com/pbenner/autodiff"
	"github.com/pbenner/autodiff/algorithm/newton"
)

// jmode 0: the Jacobian is an uninterpreted function of the point; 1: it is the
// constant 1 (the Newton step is then the residual itself, computed exactly, so
// that the bit-precise solver can decide which steps vanish against x)
func verif_C07_newtonRoot(maxIter, constrained, jmode int) {
	x0v := VerifFinite64("x0")
	eps := VerifFinite64("eps")
	VerifAssume(eps > 0)
	bound := 0.0
	if constrained == 1 {
		bound = VerifFinite64("bound")
	}
	hookCalls := 0
	f := func(x ConstVector) (MagicVector, error) {
		v := x.Float64At(0)
		y := NullDenseReal64Vector(1)
		e := y.AT(0)
		e.SetFloat64(VerifUF("F", v))
		e.Alloc(1, 1)
		if jmode == 1 {
			e.SetDerivative(0, 1.0)
		} else {
			e.SetDerivative(0, VerifUF("J", v))
		}
		return y, nil
	}
	hook := newton.HookRoot{func(x ConstVector, J ConstMatrix, y ConstVector) bool {
		hookCalls++
		return false
	}}
	args := []interface{}{newton.Epsilon{eps}, newton.MaxIterations{maxIter}, hook}
	if constrained == 1 {
		args = append(args, newton.Constraints{func(x Vector) bool { return x.Float64At(0) <= bound }})
	}
	x0 := NewDenseFloat64Vector([]float64{x0v})
	x, err := newton.RunRoot(f, x0, args...)
	if err != nil || x == nil {
		return
	}
	if hookCalls >= maxIter {
		return // iteration cap (or a stop in the very last iteration): outside the statement
	}
	VerifReach("newton-returned")
	r := NewDenseFloat64Vector([]float64{VerifUF("F", x.Float64At(0))})
	n := NullFloat64()
	n.Vnorm(r)
	VerifAssert("newtonRoot:stop-condition-at-returned-point", n.GetFloat64() < eps)
	if constrained == 1 {
		VerifAssert("newtonRoot:returned-point-is-feasible", x.Float64At(0) <= bound)
	}
}

func init() {
	VerifRegister("verif_C07_newtonRoot", func(a []int) { verif_C07_newtonRoot(a[0], a[1], a[2]) })
}
