package zzverif

// C15: HMM inference equals explicit enumeration over hidden paths (real
// interpretation with the exp-homomorphism: the forward recursion's result is a
// polynomial in the initial, transition and emission probabilities).

import (
	"math"

	. "github.com/pbenner/autodiff"
	"github.com/pbenner/autodiff/statistics/generic"
)

type symRecord struct {
	e [][]float64 // e[c][k] = log emission of distribution c at position k
	n int
}

func (r symRecord) MapIndex(k int) int { return k }
func (r symRecord) GetN() int          { return r.n }
func (r symRecord) LogPdf(s Scalar, c, k int) error {
	s.SetFloat64(r.e[c][k])
	return nil
}

// logOfPositive: the logarithm of a symbolic positive weight (under the
// exp-homomorphism exp(log w) = w, so all identities become polynomial in w)
func logOfPositive(name string) float64 {
	w := VerifFinite64(name)
	VerifAssume(w > 0)
	return math.Log(w)
}

// zero pattern: bit i*m+j of zmask set => transition i->j has probability zero
func symHmm(m int, zmask int, stateMap []int) (*generic.Hmm, error) {
	pi := NullDenseVector(Float64Type, m)
	for i := 0; i < m; i++ {
		pi.At(i).SetFloat64(logOfPositive("pi"))
	}
	tr := NullDenseMatrix(Float64Type, m, m)
	for i := 0; i < m; i++ {
		for j := 0; j < m; j++ {
			if (zmask>>uint(i*m+j))&1 == 1 {
				tr.At(i, j).SetFloat64(math.Inf(-1))
			} else {
				tr.At(i, j).SetFloat64(logOfPositive("tr"))
			}
		}
	}
	p, err := generic.NewHmmProbabilityVector(pi, true)
	if err != nil {
		return nil, err
	}
	t, err := generic.NewHmmTransitionMatrix(tr, true)
	if err != nil {
		return nil, err
	}
	return generic.NewHmm(p, t, stateMap)
}

func symEmissions(nd, n int) [][]float64 {
	e := make([][]float64, nd)
	for c := range e {
		e[c] = make([]float64, n)
		for k := range e[c] {
			e[c][k] = logOfPositive("e")
		}
	}
	return e
}

// probability (not log) of the hidden path s jointly with the observations,
// from the model's own (normalised) parameters
func pathProb(h *generic.Hmm, rec symRecord, s []int) (float64, bool) {
	lp := h.Pi.Float64At(s[0]) + rec.e[h.StateMap[s[0]]][0]
	for k := 1; k < len(s); k++ {
		var t float64
		if k == len(s)-1 {
			t = h.Tf.Float64At(s[k-1], s[k])
		} else {
			t = h.Tr.Float64At(s[k-1], s[k])
		}
		if math.IsInf(t, -1) {
			return 0, false
		}
		lp += t + rec.e[h.StateMap[s[k]]][k]
	}
	return math.Exp(lp), true
}

func enumerate(m, n int, f func(s []int)) {
	s := make([]int, n)
	var rec func(k int)
	rec = func(k int) {
		if k == n {
			f(s)
			return
		}
		for i := 0; i < m; i++ {
			s[k] = i
			rec(k + 1)
		}
	}
	rec(0)
}

// smap 0: identity state map, 1: all states share emission 0, 2: states 0 and 1 share
func stateMapOf(m, smap int) ([]int, int) {
	switch smap {
	case 1:
		return make([]int, m), 1
	case 2:
		sm := make([]int, m)
		for i := range sm {
			if i > 0 {
				sm[i] = i - 1
			}
		}
		if m == 1 {
			return sm, 1
		}
		return sm, m - 1
	}
	sm := make([]int, m)
	for i := range sm {
		sm[i] = i
	}
	return sm, m
}

func verif_C15_logpdf(m, n, zmask, smap, final int) {
	sm, nd := stateMapOf(m, smap)
	h, err := symHmm(m, zmask, sm)
	if err != nil || h == nil {
		return
	}
	if final == 1 && m > 1 {
		if h.SetFinalStates([]int{m - 1}) != nil {
			return
		}
	}
	rec := symRecord{symEmissions(nd, n), n}
	r := NewFloat64(0)
	if h.LogPdf(r, rec) != nil {
		return
	}
	total := 0.0
	some := false
	enumerate(m, n, func(s []int) {
		if p, ok := pathProb(h, rec, s); ok {
			total += p
			some = true
		}
	})
	VerifReach("logpdf")
	if some {
		VerifAssertEqF("logpdf=log-sum-over-paths", r.GetFloat64(), math.Log(total))
	} else {
		VerifAssert("logpdf=-Inf-when-no-path", math.IsInf(r.GetFloat64(), -1))
	}
}

func verif_C15_marginals(m, n, zmask int) {
	sm, nd := stateMapOf(m, 0)
	h, err := symHmm(m, zmask, sm)
	if err != nil || h == nil {
		return
	}
	rec := symRecord{symEmissions(nd, n), n}
	g, err := h.PosteriorMarginals(rec)
	if err != nil {
		return
	}
	VerifReach("marginals")
	total := 0.0
	enumerate(m, n, func(s []int) {
		if p, ok := pathProb(h, rec, s); ok {
			total += p
		}
	})
	for k := 0; k < n; k++ {
		sum := 0.0
		for i := 0; i < m; i++ {
			through := 0.0
			enumerate(m, n, func(s []int) {
				if s[k] == i {
					if p, ok := pathProb(h, rec, s); ok {
						through += p
					}
				}
			})
			gi := math.Exp(g[i].Float64At(k))
			// marginal * likelihood = mass of the paths through state i at position k
			VerifAssertEqF("marginal*likelihood=sum-through-state", gi*total, through)
			sum += gi
		}
		VerifAssertEqF("marginals-sum-to-one", sum, 1)
	}
}

// posterior of a sequence of state sets: P(x_k in S_k for all k | y) equals
// the mass of the hidden paths inside the product of the sets over the
// likelihood. sets: one base-4 digit per position, bit i = state i is allowed.
// uniform 1: initial and transition probabilities are the constant 1/m and only
// the emissions are symbolic (the identity is then multilinear in them, which
// the nonlinear solver decides for n = 4; fully symbolic models time out there)
func verif_C15_posterior(m, n, sets, uniform int) {
	sm, nd := stateMapOf(m, 0)
	var h *generic.Hmm
	var err error
	if uniform == 1 {
		pi := NullDenseVector(Float64Type, m)
		tr := NullDenseMatrix(Float64Type, m, m)
		for i := 0; i < m; i++ {
			pi.At(i).SetFloat64(math.Log(1 / float64(m)))
			for j := 0; j < m; j++ {
				tr.At(i, j).SetFloat64(math.Log(1 / float64(m)))
			}
		}
		p, e1 := generic.NewHmmProbabilityVector(pi, true)
		t, e2 := generic.NewHmmTransitionMatrix(tr, true)
		if e1 != nil || e2 != nil {
			return
		}
		h, err = generic.NewHmm(p, t, sm)
	} else {
		h, err = symHmm(m, 0, sm)
	}
	if err != nil || h == nil {
		return
	}
	rec := symRecord{symEmissions(nd, n), n}
	states := make([][]int, n)
	allowed := make([]int, n)
	for k := 0; k < n; k++ {
		allowed[k] = (sets >> uint(2*k)) & 3
		for i := 0; i < m; i++ {
			if (allowed[k]>>uint(i))&1 == 1 {
				states[k] = append(states[k], i)
			}
		}
	}
	r := NewFloat64(0)
	if h.Posterior(r, rec, states) != nil {
		return
	}
	VerifReach("posterior")
	total, inside := 0.0, 0.0
	enumerate(m, n, func(s []int) {
		p, ok := pathProb(h, rec, s)
		if !ok {
			return
		}
		total += p
		in := true
		for k := range s {
			if (allowed[k]>>uint(s[k]))&1 == 0 {
				in = false
			}
		}
		if in {
			inside += p
		}
	})
	VerifAssertEqF("posterior*likelihood=mass-inside-the-sets", math.Exp(r.GetFloat64())*total, inside)
}

// log of the joint probability of a hidden path (false: probability zero)
func pathLogProb(h *generic.Hmm, rec symRecord, s []int) (float64, bool) {
	lp := h.Pi.Float64At(s[0]) + rec.e[h.StateMap[s[0]]][0]
	for k := 1; k < len(s); k++ {
		var t float64
		if k == len(s)-1 {
			t = h.Tf.Float64At(s[k-1], s[k])
		} else {
			t = h.Tr.Float64At(s[k-1], s[k])
		}
		if math.IsInf(t, -1) {
			return 0, false
		}
		lp += t + rec.e[h.StateMap[s[k]]][k]
	}
	return lp, true
}

// the Viterbi path has maximal joint probability (ties allowed)
func verif_C15_viterbi(m, n, zmask, final int) {
	sm, nd := stateMapOf(m, 0)
	h, err := symHmm(m, zmask, sm)
	if err != nil || h == nil {
		return
	}
	if final == 1 && m > 1 {
		if h.SetFinalStates([]int{m - 1}) != nil {
			return
		}
	}
	rec := symRecord{symEmissions(nd, n), n}
	path, err := h.Viterbi(rec)
	if err != nil {
		return
	}
	VerifReach("viterbi")
	VerifAssert("viterbi:length", len(path) == n)
	if len(path) != n {
		return
	}
	best, ok := pathLogProb(h, rec, path)
	any := false
	enumerate(m, n, func(s []int) {
		if lp, ok2 := pathLogProb(h, rec, s); ok2 {
			any = true
			if ok {
				VerifAssert("viterbi:path-is-maximal", best >= lp)
			}
		}
	})
	if any {
		VerifAssert("viterbi:path-has-positive-probability", ok)
	}
}

func init() {
	VerifRegister("verif_C15_posterior", func(a []int) { verif_C15_posterior(a[0], a[1], a[2], a[3]) })
	VerifRegister("verif_C15_viterbi", func(a []int) { verif_C15_viterbi(a[0], a[1], a[2], a[3]) })
	VerifRegister("verif_C15_logpdf", func(a []int) { verif_C15_logpdf(a[0], a[1], a[2], a[3], a[4]) })
	VerifRegister("verif_C15_marginals", func(a []int) { verif_C15_marginals(a[0], a[1], a[2]) })
}
