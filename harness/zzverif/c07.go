package zzverif

// C07: optimisers return points that meet their stopping condition when
// re-evaluated there. The objective is an uninterpreted function of the point
// (value and derivative are VerifUF applications), so nothing but "equal points
// give equal answers" is assumed about it. Real interpretation.

import (
	"math"

	. "github.com/pbenner/autodiff"
	. "github.com/pbenner/autodiff/algorithm"
	"github.com/pbenner/autodiff/algorithm/gradientDescent"
	"github.com/pbenner/autodiff/algorithm/lineSearch"
	"github.com/pbenner/autodiff/algorithm/rprop"
)

// objective of one variable: value F(x), derivative G(x)
func objective1(evals *int) func(ConstVector) (MagicScalar, error) {
	return func(x ConstVector) (MagicScalar, error) {
		*evals++
		v := x.Float64At(0)
		r := NewReal64(VerifUF("F", v))
		r.Alloc(1, 1)
		r.SetDerivative(0, VerifUF("G", v))
		return r, nil
	}
}

func verif_C07_gradientDescent(withHook int) {
	x0v := VerifFinite64("x0")
	x0 := NewDenseFloat64Vector([]float64{x0v})
	step := VerifFinite64("step")
	eps := VerifFinite64("eps")
	VerifAssume(eps > 0)
	evals := 0
	hookCalls := 0
	hookOK := true
	hook := func(g []float64, x ConstVector, s ConstScalar) bool {
		hookCalls++
		// the values passed to the hook are those of the point passed with them
		if g[0] != VerifUF("G", x.Float64At(0)) || s.GetFloat64() != VerifUF("F", x.Float64At(0)) {
			hookOK = false
		}
		return false
	}
	var x Vector
	var err error
	if withHook == 1 {
		x, err = gradientDescent.Run(objective1(&evals), x0, step, gradientDescent.Epsilon{eps}, gradientDescent.Hook{hook})
	} else {
		x, err = gradientDescent.Run(objective1(&evals), x0, step, gradientDescent.Epsilon{eps})
	}
	if err != nil {
		return
	}
	VerifReach("gd-returned")
	g := VerifUF("G", x.Float64At(0))
	VerifAssert("gradientDescent:stop-condition-at-returned-point", Norm([]float64{g}) < eps)
	VerifAssert("gradientDescent:hook-arguments", hookOK)
	VerifAssertEqF("gradientDescent:x0-unchanged", x0.Float64At(0), x0v)
}

func verif_C07_rprop(maxIter int) {
	x0v := VerifFinite64("x0")
	x0 := NewDenseFloat64Vector([]float64{x0v})
	step := VerifFinite64("step")
	VerifAssume(step > 0)
	eps := VerifFinite64("eps")
	VerifAssume(eps > 0)
	evals := 0
	hookCalls := 0
	hookOK := true
	hook := func(gnew, st []float64, x ConstVector, s ConstScalar) bool {
		hookCalls++
		if gnew[0] != VerifUF("G", x.Float64At(0)) || s.GetFloat64() != VerifUF("F", x.Float64At(0)) {
			hookOK = false
		}
		return false
	}
	x, err := rprop.Run(objective1(&evals), x0, step, []float64{1.2, 0.5}, rprop.Epsilon{eps}, rprop.MaxIterations{maxIter}, rprop.Hook{hook})
	if err != nil {
		return
	}
	VerifAssert("rprop:hook-arguments", hookOK)
	VerifAssertEqF("rprop:x0-unchanged", x0.Float64At(0), x0v)
	if hookCalls >= maxIter {
		return // iteration cap (or a stop in the very last iteration): outside the statement
	}
	VerifReach("rprop-returned")
	g := VerifUF("G", x.Float64At(0))
	VerifAssert("rprop:stop-condition-at-returned-point", Norm([]float64{g}) < eps)
}

// strong Wolfe conditions at the returned step length
func verif_C07_lineSearch(maxEval int) {
	evals := 0
	phi := func(a ConstScalar) (MagicScalar, error) {
		evals++
		v := a.GetFloat64()
		r := NewReal64(VerifUF("phi", v))
		r.Alloc(1, 1)
		r.SetDerivative(0, VerifUF("dphi", v))
		return r, nil
	}
	g0 := VerifUF("dphi", 0.0)
	VerifAssume(g0 < 0) // descent direction
	alpha, err := lineSearch.Run(phi, Float64Type, lineSearch.Parameters{1.0, maxEval})
	if err != nil {
		return
	}
	if evals > maxEval {
		return // evaluation cap reached: outside the statement
	}
	VerifReach("linesearch-returned")
	a := alpha.GetFloat64()
	y0 := VerifUF("phi", 0.0)
	ya, ga := VerifUF("phi", a), VerifUF("dphi", a)
	VerifAssert("lineSearch:sufficient-decrease", ya <= y0+1e-4*a*g0)
	VerifAssert("lineSearch:curvature", math.Abs(ga) <= -0.9*g0)
}

func init() {
	VerifRegister("verif_C07_gradientDescent", func(a []int) { verif_C07_gradientDescent(a[0]) })
	VerifRegister("verif_C07_rprop", func(a []int) { verif_C07_rprop(a[0]) })
	VerifRegister("verif_C07_lineSearch", func(a []int) { verif_C07_lineSearch(a[0]) })
}
