package zzverif

// C04: linear solves, inverses and determinants satisfy their defining
// equations (real interpretation: the formula the code evaluates is the right
// formula on every pivot path).

import (
	. "github.com/pbenner/autodiff"
	"github.com/pbenner/autodiff/algorithm/backSubstitution"
	"github.com/pbenner/autodiff/algorithm/determinant"
	"github.com/pbenner/autodiff/algorithm/gaussJordan"
	"github.com/pbenner/autodiff/algorithm/matrixInverse"
)

func elemType(kind int) ScalarType {
	if kind == 1 {
		return Real64Type
	}
	return Float64Type
}

// symMatrix: n x n matrix of kind with symbolic entries; struct selects a
// structure: 0 full, 1 upper triangular, 2 symmetric
func symMatrix(kind, n, structure int, name string) (Matrix, [][]float64) {
	m := NullDenseMatrix(elemType(kind), n, n)
	E := make([][]float64, n)
	for i := 0; i < n; i++ {
		E[i] = make([]float64, n)
	}
	for i := 0; i < n; i++ {
		for j := 0; j < n; j++ {
			switch {
			case structure == 1 && j < i:
				E[i][j] = 0
			case structure == 2 && j < i:
				E[i][j] = E[j][i]
			default:
				E[i][j] = VerifFinite64(name)
			}
			m.At(i, j).SetFloat64(E[i][j])
		}
	}
	return m, E
}

func symVector(kind, n int, name string) (Vector, []float64) {
	v := NullDenseVector(elemType(kind), n)
	E := make([]float64, n)
	for i := 0; i < n; i++ {
		E[i] = VerifFinite64(name)
		v.At(i).SetFloat64(E[i])
	}
	return v, E
}

func assertProductIsIdentity(label string, A [][]float64, X ConstMatrix) {
	n := len(A)
	for i := 0; i < n; i++ {
		for j := 0; j < n; j++ {
			s := 0.0
			for k := 0; k < n; k++ {
				s += A[i][k] * X.Float64At(k, j)
			}
			if i == j {
				VerifAssertEqF(label+":diag", s, 1.0)
			} else {
				VerifAssertEqF(label+":offdiag", s, 0.0)
			}
		}
	}
}

func assertSolves(label string, A [][]float64, x ConstVector, b []float64) {
	n := len(A)
	for i := 0; i < n; i++ {
		s := 0.0
		for k := 0; k < n; k++ {
			s += A[i][k] * x.Float64At(k)
		}
		VerifAssertEqF(label, s, b[i])
	}
}

func sameInput(label string, m ConstMatrix, E [][]float64) {
	for i := range E {
		for j := range E[i] {
			VerifAssertEqF(label, m.Float64At(i, j), E[i][j])
		}
	}
}

// Gauss-Jordan: a is reduced, x becomes inv(A), b becomes the solution
func verif_C04_gaussJordan(kind, n, tri int) {
	structure := 0
	if tri == 1 {
		structure = 1
	}
	a, A := symMatrix(kind, n, structure, "a")
	b, B := symVector(kind, n, "b")
	x := NullDenseMatrix(elemType(kind), n, n)
	x.SetIdentity()
	var err error
	var p bool
	if tri == 1 {
		p = VerifPanics(func() { err = gaussJordan.Run(a, x, b, gaussJordan.UpperTriangular{true}) })
	} else {
		p = VerifPanics(func() { err = gaussJordan.Run(a, x, b) })
	}
	if p || err != nil {
		VerifReach("gj-rejected")
		return
	}
	VerifReach("gj-returned")
	assertProductIsIdentity("A.X=I", A, x)
	assertSolves("A.x=b", A, b, B)
}

// matrixInverse.Run with its options; the input must stay unchanged
func verif_C04_inverse(kind, n, variant int) {
	structure := 0
	switch variant {
	case 1:
		structure = 2 // positive definite option: symmetric input
	case 2:
		structure = 1
	}
	a, A := symMatrix(kind, n, structure, "a")
	var r Matrix
	var err error
	var p bool
	switch variant {
	case 0:
		p = VerifPanics(func() { r, err = matrixInverse.Run(a) })
	case 1:
		p = VerifPanics(func() { r, err = matrixInverse.Run(a, matrixInverse.PositiveDefinite{true}) })
	case 2:
		p = VerifPanics(func() { r, err = matrixInverse.Run(a, matrixInverse.UpperTriangular{true}) })
	case 3: // caller-supplied in-situ buffers holding other values
		inSitu := &matrixInverse.InSitu{}
		inSitu.Id, _ = symMatrix(kind, n, 0, "junkId")
		inSitu.A, _ = symMatrix(kind, n, 0, "junkA")
		inSitu.B, _ = symVector(kind, n, "junkB")
		p = VerifPanics(func() { r, err = matrixInverse.Run(a, inSitu) })
	}
	if p || err != nil {
		VerifReach("inverse-rejected")
		return
	}
	VerifReach("inverse-returned")
	assertProductIsIdentity("A.inv(A)=I", A, r)
	sameInput("input-unchanged", a, A)
}

// back substitution on an upper-triangular system
func verif_C04_backsub(kind, n int) {
	a, A := symMatrix(kind, n, 1, "r")
	b, B := symVector(kind, n, "b")
	var x Vector
	var err error
	p := VerifPanics(func() { x, err = backSubstitution.Run(a, b) })
	if p || err != nil {
		VerifReach("backsub-rejected")
		return
	}
	VerifReach("backsub-returned")
	assertSolves("R.x=b", A, x, B)
	sameInput("input-unchanged", a, A)
}

func leibniz(A [][]float64) float64 {
	n := len(A)
	switch n {
	case 1:
		return A[0][0]
	case 2:
		return A[0][0]*A[1][1] - A[0][1]*A[1][0]
	}
	d := 0.0
	for j := 0; j < n; j++ {
		var minor [][]float64
		for i := 1; i < n; i++ {
			var row []float64
			for k := 0; k < n; k++ {
				if k != j {
					row = append(row, A[i][k])
				}
			}
			minor = append(minor, row)
		}
		t := A[0][j] * leibniz(minor)
		if j%2 == 0 {
			d += t
		} else {
			d -= t
		}
	}
	return d
}

func verif_C04_determinant(kind, n int) {
	a, A := symMatrix(kind, n, 0, "a")
	var d Scalar
	var err error
	p := VerifPanics(func() { d, err = determinant.Run(a) })
	if p || err != nil {
		VerifReach("det-rejected")
		return
	}
	VerifReach("det-returned")
	VerifAssertEqF("det=leibniz", d.GetFloat64(), leibniz(A))
	sameInput("input-unchanged", a, A)
}

// all pivot orders at size n: A = P.diag(d) with symbolic non-zero d and a
// symbolic permutation (one path per permutation); the arithmetic is trivial,
// every row permutation the elimination can take is covered, and the final
// un-permutation is decided.
func verif_C04_pivots(kind, n, perm int) {
	pi := permutation(n, perm)
	a := NullDenseMatrix(elemType(kind), n, n)
	A := make([][]float64, n)
	for i := range A {
		A[i] = make([]float64, n)
	}
	for i := 0; i < n; i++ {
		d := VerifFinite64("d")
		VerifAssume(d != 0)
		A[pi[i]][i] = d
		a.At(pi[i], i).SetFloat64(d)
	}
	b, B := symVector(kind, n, "b")
	x := NullDenseMatrix(elemType(kind), n, n)
	x.SetIdentity()
	var err error
	p := VerifPanics(func() { err = gaussJordan.Run(a, x, b) })
	VerifAssert("nonsingular-permuted-diagonal-accepted", !p && err == nil)
	if p || err != nil {
		return
	}
	assertProductIsIdentity("A.X=I", A, x)
	assertSolves("A.x=b", A, b, B)
	VerifReach("pivots")
}

// fp interpretation, concrete entries: a non-singular permuted diagonal matrix
// (every pivot order) is never rejected. Zero pivots, which the real
// interpretation excludes by its definedness assumptions, are visible here; the
// entries are concrete because only the control flow matters (exhaustive over
// the n! pivot orders, no solver involved).
func verif_C04_pivots_fp(kind, n, perm int) {
	pi := permutation(n, perm)
	a := NullDenseMatrix(elemType(kind), n, n)
	// every sign pattern of the entries (pivot search compares magnitudes)
	signs := VerifChoice("signs", 1<<uint(n))
	val := func(i int) float64 {
		if (signs>>uint(i))&1 == 1 {
			return -float64(2*i + 3)
		}
		return float64(2*i + 3)
	}
	for i := 0; i < n; i++ {
		a.At(pi[i], i).SetFloat64(val(i))
	}
	b := NullDenseVector(elemType(kind), n)
	for i := 0; i < n; i++ {
		b.At(i).SetFloat64(1)
	}
	x := NullDenseMatrix(elemType(kind), n, n)
	x.SetIdentity()
	var err error
	p := VerifPanics(func() { err = gaussJordan.Run(a, x, b) })
	VerifAssert("nonsingular-permuted-diagonal-accepted", !p && err == nil)
	if !p && err == nil {
		for i := 0; i < n; i++ {
			VerifAssertEqF("solution-entry", b.Float64At(i), 1/val(i))
		}
	}
	VerifReach("pivots-fp")
}

// positive-definite inverse called twice with one caller-supplied InSitu: the
// second result must not depend on what the first call left in the buffers
// first: 0 the first call is a positive-definite inversion too, 1 it is a general one
// (which fills buffers that the triangular solver of the second call reads)
func verif_C04_pd_reuse(kind, n, first int) {
	inSitu := &matrixInverse.InSitu{}
	a1, _ := symMatrix(kind, n, 2, "p")
	var err error
	p := VerifPanics(func() {
		if first == 1 {
			_, err = matrixInverse.Run(a1, inSitu)
		} else {
			_, err = matrixInverse.Run(a1, matrixInverse.PositiveDefinite{true}, inSitu)
		}
	})
	if p || err != nil {
		return
	}
	a2, A2 := symMatrix(kind, n, 2, "q")
	var r Matrix
	p = VerifPanics(func() { r, err = matrixInverse.Run(a2, matrixInverse.PositiveDefinite{true}, inSitu) })
	if p || err != nil {
		return
	}
	VerifReach("pd-reuse")
	assertProductIsIdentity("second-call:A.inv(A)=I", A2, r)
}

func permutation(n, idx int) []int {
	elems := make([]int, n)
	for i := range elems {
		elems[i] = i
	}
	fact := 1
	for i := 2; i < n; i++ {
		fact *= i
	}
	var out []int
	for i := n - 1; i >= 0; i-- {
		q := 0
		if fact > 0 {
			q = idx / fact
			idx = idx % fact
		}
		out = append(out, elems[q])
		elems = append(elems[:q], elems[q+1:]...)
		if i > 0 {
			fact /= i
		}
	}
	return out
}

func init() {
	VerifRegister("verif_C04_gaussJordan", func(a []int) { verif_C04_gaussJordan(a[0], a[1], a[2]) })
	VerifRegister("verif_C04_inverse", func(a []int) { verif_C04_inverse(a[0], a[1], a[2]) })
	VerifRegister("verif_C04_backsub", func(a []int) { verif_C04_backsub(a[0], a[1]) })
	VerifRegister("verif_C04_determinant", func(a []int) { verif_C04_determinant(a[0], a[1]) })
	VerifRegister("verif_C04_pivots", func(a []int) { verif_C04_pivots(a[0], a[1], a[2]) })
	VerifRegister("verif_C04_pivots_fp", func(a []int) { verif_C04_pivots_fp(a[0], a[1], a[2]) })
	VerifRegister("verif_C04_pd_reuse", func(a []int) { verif_C04_pd_reuse(a[0], a[1], a[2]) })
}
