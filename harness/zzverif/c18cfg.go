package zzverif

// C18 for distributions: ExportConfig -> JSON -> ImportConfig yields an object
// observably equal to the original (parameters, and for the HMM the initial,
// transition and final-transition tables and the state sets). encoding/json
// and the reflect-based readers of statistics/config.go run under the JSON and
// reflect data-model stubs; real interpretation (the configuration stores
// probabilities, the objects their logarithms).

import (
	"encoding/json"

	. "github.com/pbenner/autodiff"
	. "github.com/pbenner/autodiff/statistics"
	"github.com/pbenner/autodiff/statistics/generic"
	"github.com/pbenner/autodiff/statistics/scalarDistribution"
)

func cfgRoundTrip(c ConfigDistribution) (ConfigDistribution, bool) {
	b, err := json.MarshalIndent(c, "", "  ")
	VerifAssert("config:marshal-no-error", err == nil)
	if err != nil {
		return c, false
	}
	r := ConfigDistribution{}
	err = json.Unmarshal(b, &r)
	VerifAssert("config:unmarshal-no-error", err == nil)
	return r, err == nil
}

// fs: bit mask of final states, ss: of start states
func verif_C18_hmmconfig(m, ss, fs int) {
	sm, _ := stateMapOf(m, 0)
	h, err := symHmm(m, 0, sm)
	if err != nil {
		return
	}
	set := func(mask int) []int {
		r := []int{}
		for i := 0; i < m; i++ {
			if (mask>>uint(i))&1 == 1 {
				r = append(r, i)
			}
		}
		return r
	}
	if ss != 0 {
		h.SetStartStates(set(ss))
	}
	if fs != 0 {
		h.SetFinalStates(set(fs))
	}
	c, ok := cfgRoundTrip(h.ExportConfig())
	if ok {
		g := &generic.Hmm{}
		err := g.ImportConfig(c, Float64Type)
		VerifAssert("hmm-config:import-no-error", err == nil)
		if err == nil {
			VerifAssert("hmm-config:states", g.NStates() == m)
			if g.NStates() == m {
				for i := 0; i < m; i++ {
					VerifAssertEqF("hmm-config:Pi", g.Pi.Float64At(i), h.Pi.Float64At(i))
					for j := 0; j < m; j++ {
						VerifAssertEqF("hmm-config:Tr", g.Tr.Float64At(i, j), h.Tr.Float64At(i, j))
						VerifAssertEqF("hmm-config:Tf", g.Tf.Float64At(i, j), h.Tf.Float64At(i, j))
					}
					VerifAssert("hmm-config:StateMap", g.StateMap[i] == h.StateMap[i])
				}
			}
		}
	}
	VerifReach("C18-hmmconfig")
}

// scalar distributions: parameters survive the configuration round trip
func verif_C18_distconfig(which int) {
	p := func(name string) Scalar { return NewFloat64(VerifFinite64(name)) }
	pos := func(name string) Scalar {
		x := VerifFinite64(name)
		VerifAssume(x > 0)
		return NewFloat64(x)
	}
	var d, e ScalarPdf
	var err error
	name := ""
	switch which {
	case 0:
		name = "Normal"
		d, err = scalarDistribution.NewNormalDistribution(p("mu"), pos("sigma"))
		e = &scalarDistribution.NormalDistribution{}
	case 1:
		name = "Gamma"
		d, err = scalarDistribution.NewGammaDistribution(pos("alpha"), pos("beta"))
		e = &scalarDistribution.GammaDistribution{}
	case 2:
		name = "Exponential"
		d, err = scalarDistribution.NewExponentialDistribution(pos("lambda"))
		e = &scalarDistribution.ExponentialDistribution{}
	case 3:
		name = "Laplace"
		d, err = scalarDistribution.NewLaplaceDistribution(p("mu"), pos("sigma"))
		e = &scalarDistribution.LaplaceDistribution{}
	case 4:
		name = "Pareto"
		d, err = scalarDistribution.NewParetoDistribution(pos("lambda"), pos("kappa"))
		e = &scalarDistribution.ParetoDistribution{}
	case 5:
		name = "Cauchy"
		d, err = scalarDistribution.NewCauchyDistribution(p("mu"), pos("sigma"))
		e = &scalarDistribution.CauchyDistribution{}
	case 6:
		name = "Poisson"
		d, err = scalarDistribution.NewPoissonDistribution(pos("lambda"))
		e = &scalarDistribution.PoissonDistribution{}
	case 7:
		name = "GPareto"
		d, err = scalarDistribution.NewGParetoDistribution(p("mu"), pos("sigma"), pos("xi"))
		e = &scalarDistribution.GParetoDistribution{}
	}
	if err != nil {
		return
	}
	type configurable interface {
		ExportConfig() ConfigDistribution
		ImportConfig(config ConfigDistribution, t ScalarType) error
		GetParameters() Vector
	}
	c, ok := cfgRoundTrip(d.(configurable).ExportConfig())
	if ok {
		err := e.(configurable).ImportConfig(c, Float64Type)
		VerifAssert(name+"-config:import-no-error", err == nil)
		if err == nil {
			p1 := d.(configurable).GetParameters()
			p2 := e.(configurable).GetParameters()
			VerifAssert(name+"-config:number-of-parameters", p1.Dim() == p2.Dim())
			if p1.Dim() == p2.Dim() {
				for i := 0; i < p1.Dim(); i++ {
					VerifAssertEqF(name+"-config:parameter", p2.Float64At(i), p1.Float64At(i))
				}
			}
		}
	}
	VerifReach("C18-distconfig")
}

func init() {
	VerifRegister("verif_C18_hmmconfig", func(a []int) { verif_C18_hmmconfig(a[0], a[1], a[2]) })
	VerifRegister("verif_C18_distconfig", func(a []int) { verif_C18_distconfig(a[0]) })
}
