package zzverif

// C06: fast paths equal generic paths; derivatives propagate through linear
// algebra (one symbolic parameter t, every entry's dA/dt symbolic).

import (
	. "github.com/pbenner/autodiff"
	"github.com/pbenner/autodiff/algorithm/cholesky"
	"github.com/pbenner/autodiff/algorithm/determinant"
	"github.com/pbenner/autodiff/algorithm/gaussJordan"
	"github.com/pbenner/autodiff/algorithm/matrixInverse"
)

func matrixFrom(kind int, E [][]float64) Matrix {
	n := len(E)
	m := NullDenseMatrix(elemType(kind), n, n)
	for i := 0; i < n; i++ {
		for j := 0; j < n; j++ {
			m.At(i, j).SetFloat64(E[i][j])
		}
	}
	return m
}

func sameValues(label string, a, b ConstMatrix) {
	n, m := a.Dims()
	for i := 0; i < n; i++ {
		for j := 0; j < m; j++ {
			VerifAssertEqF(label, a.Float64At(i, j), b.Float64At(i, j))
		}
	}
}

// fp interpretation: the Float64 fast path and the generic path (reached with a
// Real64 matrix) return identical values and the same error / panic outcome.
// routine 0: cholesky, 1: cholesky LDL, 2: cholesky LDL ForcePD, 3: Gauss-Jordan, 4: Gauss-Jordan upper triangular
func verif_C06_fastgeneric(routine, n int) {
	structure := 0
	if routine <= 2 {
		structure = 2
	}
	if routine == 4 {
		structure = 1
	}
	_, A := symMatrix(0, n, structure, "a")
	af, ag := matrixFrom(0, A), matrixFrom(1, A)
	switch routine {
	case 0, 1, 2:
		var Lf, Df, Lg, Dg Matrix
		var ef, eg error
		var args []interface{}
		if routine >= 1 {
			args = append(args, cholesky.LDL{true})
		}
		if routine == 2 {
			args = append(args, cholesky.ForcePD{true})
		}
		pf := VerifPanics(func() { Lf, Df, ef = cholesky.Run(af, args...) })
		pg := VerifPanics(func() { Lg, Dg, eg = cholesky.Run(ag, args...) })
		VerifAssert("same-outcome", pf == pg && (ef == nil) == (eg == nil))
		if !pf && !pg && ef == nil && eg == nil {
			sameValues("L:fast=generic", Lf, Lg)
			if routine >= 1 {
				sameValues("D:fast=generic", Df, Dg)
			}
		}
	case 3, 4:
		bf, bg := NullDenseVector(Float64Type, n), NullDenseVector(Real64Type, n)
		for i := 0; i < n; i++ {
			x := VerifFinite64("b")
			bf.At(i).SetFloat64(x)
			bg.At(i).SetFloat64(x)
		}
		xf, xg := NullDenseMatrix(Float64Type, n, n), NullDenseMatrix(Real64Type, n, n)
		xf.SetIdentity()
		xg.SetIdentity()
		var args []interface{}
		if routine == 4 {
			args = append(args, gaussJordan.UpperTriangular{true})
		}
		var ef, eg error
		pf := VerifPanics(func() { ef = gaussJordan.Run(af, xf, bf, args...) })
		pg := VerifPanics(func() { eg = gaussJordan.Run(ag, xg, bg, args...) })
		// the Float64 path reports a computationally singular system by an
		// error where the generic path panics: both count as rejection
		VerifAssert("same-outcome", (pf || ef != nil) == (pg || eg != nil))
		if !pf && !pg && ef == nil && eg == nil {
			sameValues("X:fast=generic", xf, xg)
			for i := 0; i < n; i++ {
				VerifAssertEqF("b:fast=generic", bf.Float64At(i), bg.Float64At(i))
			}
		}
	}
	VerifReach("fastgeneric")
}

// Real64 matrix whose entries carry a symbolic derivative with respect to one
// parameter; dA returned alongside
func symMagic(n, structure int, name string) (Matrix, [][]float64, [][]float64) {
	m := NullDenseMatrix(Real64Type, n, n)
	A := make([][]float64, n)
	dA := make([][]float64, n)
	for i := range A {
		A[i] = make([]float64, n)
		dA[i] = make([]float64, n)
	}
	for i := 0; i < n; i++ {
		for j := 0; j < n; j++ {
			if structure == 2 && j < i {
				A[i][j], dA[i][j] = A[j][i], dA[j][i]
			} else {
				A[i][j] = VerifFinite64(name)
				dA[i][j] = VerifFinite64(name + ".d")
			}
			s := m.At(i, j).(*Real64)
			s.SetFloat64(A[i][j])
			s.Alloc(1, 1)
			s.SetDerivative(0, dA[i][j])
		}
	}
	return m, A, dA
}

func dOf(m ConstMatrix, i, j int) float64 { return m.ConstAt(i, j).GetDerivative(0) }

func detD(A, dA [][]float64) (float64, float64) {
	n := len(A)
	if n == 1 {
		return A[0][0], dA[0][0]
	}
	v, d := 0.0, 0.0
	for j := 0; j < n; j++ {
		var mA, mD [][]float64
		for i := 1; i < n; i++ {
			var ra, rd []float64
			for k := 0; k < n; k++ {
				if k != j {
					ra = append(ra, A[i][k])
					rd = append(rd, dA[i][k])
				}
			}
			mA = append(mA, ra)
			mD = append(mD, rd)
		}
		mv, md := detD(mA, mD)
		tv := A[0][j] * mv
		td := dA[0][j]*mv + A[0][j]*md
		if j%2 == 0 {
			v += tv
			d += td
		} else {
			v -= tv
			d -= td
		}
	}
	return v, d
}

// routine 0: inverse (dA.X + A.dX = 0), 1: cholesky (dL.L' + L.dL' = dA),
// 2: determinant (derivative of the Leibniz formula), 3: MdotM product rule
func verif_C06_derivative(routine, n int) {
	switch routine {
	case 0:
		a, A, dA := symMagic(n, 0, "a")
		var X Matrix
		var err error
		p := VerifPanics(func() { X, err = matrixInverse.Run(a) })
		if p || err != nil {
			return
		}
		for i := 0; i < n; i++ {
			for j := 0; j < n; j++ {
				s := 0.0
				for k := 0; k < n; k++ {
					s += dA[i][k]*X.Float64At(k, j) + A[i][k]*dOf(X, k, j)
				}
				VerifAssertEqF("d(A.inv(A))=0", s, 0)
			}
		}
	case 1:
		a, _, dA := symMagic(n, 2, "a")
		var L Matrix
		var err error
		p := VerifPanics(func() { L, _, err = cholesky.Run(a) })
		if p || err != nil {
			return
		}
		for i := 0; i < n; i++ {
			for j := 0; j <= i; j++ {
				s := 0.0
				for k := 0; k <= j; k++ {
					s += dOf(L, i, k)*L.Float64At(j, k) + L.Float64At(i, k)*dOf(L, j, k)
				}
				VerifAssertEqF("dL.L'+L.dL'=dA", s, dA[i][j])
			}
		}
	case 2:
		a, A, dA := symMagic(n, 0, "a")
		var d Scalar
		var err error
		p := VerifPanics(func() { d, err = determinant.Run(a) })
		if p || err != nil {
			return
		}
		v, dv := detD(A, dA)
		VerifAssertEqF("det:value", d.GetFloat64(), v)
		VerifAssertEqF("det:derivative", d.GetDerivative(0), dv)
	case 3:
		a, A, dA := symMagic(n, 0, "a")
		b, B, dB := symMagic(n, 0, "b")
		r := NullDenseMatrix(Real64Type, n, n)
		r.MdotM(a, b)
		for i := 0; i < n; i++ {
			for j := 0; j < n; j++ {
				s, v := 0.0, 0.0
				for k := 0; k < n; k++ {
					v += A[i][k] * B[k][j]
					s += dA[i][k]*B[k][j] + A[i][k]*dB[k][j]
				}
				VerifAssertEqF("MdotM:value", r.Float64At(i, j), v)
				VerifAssertEqF("MdotM:product-rule", dOf(r, i, j), s)
			}
		}
	}
	VerifReach("derivative")
}

// values on magic matrices equal values on float matrices (real interpretation
// is enough here: same formula)
func verif_C06_magicvalues(n int) {
	a, A, _ := symMagic(n, 0, "a")
	af := matrixFrom(0, A)
	var X, Xf Matrix
	var e1, e2 error
	p1 := VerifPanics(func() { X, e1 = matrixInverse.Run(a) })
	p2 := VerifPanics(func() { Xf, e2 = matrixInverse.Run(af) })
	if p1 || p2 || e1 != nil || e2 != nil {
		return
	}
	sameValues("inverse:magic=float", X, Xf)
	VerifReach("magicvalues")
}

// Gauss-Jordan on permuted diagonal matrices with every sign pattern, concrete
// entries: the generic routine and the Float64 routine take the same pivots,
// so both accept the matrix and return the same solution (control flow only;
// exhaustive over the n! pivot orders and 2^n sign patterns)
func verif_C06_pivots(n, perm int) {
	pi := permutation(n, perm)
	signs := VerifChoice("signs", 1<<uint(n))
	val := func(i int) float64 {
		if (signs>>uint(i))&1 == 1 {
			return -float64(2*i + 3)
		}
		return float64(2*i + 3)
	}
	var sol [2][]float64
	var ok [2]bool
	for kind := 0; kind < 2; kind++ {
		a := NullDenseMatrix(elemType(kind), n, n)
		for i := 0; i < n; i++ {
			a.At(pi[i], i).SetFloat64(val(i))
		}
		b := NullDenseVector(elemType(kind), n)
		for i := 0; i < n; i++ {
			b.At(i).SetFloat64(1)
		}
		x := NullDenseMatrix(elemType(kind), n, n)
		x.SetIdentity()
		var err error
		p := VerifPanics(func() { err = gaussJordan.Run(a, x, b) })
		ok[kind] = !p && err == nil
		for i := 0; i < n; i++ {
			sol[kind] = append(sol[kind], b.Float64At(i))
		}
	}
	VerifAssert("gaussJordan:generic-accepts-what-Float64-accepts", ok[0] == ok[1])
	if ok[0] && ok[1] {
		for i := 0; i < n; i++ {
			VerifAssertSameBits("gaussJordan:generic=Float64", sol[1][i], sol[0][i])
		}
	}
	VerifReach("C06-pivots")
}

func init() {
	VerifRegister("verif_C06_pivots", func(a []int) { verif_C06_pivots(a[0], a[1]) })
	VerifRegister("verif_C06_fastgeneric", func(a []int) { verif_C06_fastgeneric(a[0], a[1]) })
	VerifRegister("verif_C06_derivative", func(a []int) { verif_C06_derivative(a[0], a[1]) })
	VerifRegister("verif_C06_magicvalues", func(a []int) { verif_C06_magicvalues(a[0]) })
}
