package zzverif

// C16 / C17: closed-form estimators return the weighted maximum-likelihood
// parameters (score equations, real interpretation with the exp-homomorphism);
// the estimate does not depend on the number of pool threads nor on the
// assignment of jobs to threads, and jobs of different threads do not touch
// the same memory.

import (
	"math"

	. "github.com/pbenner/autodiff"
	"github.com/pbenner/autodiff/statistics/scalarEstimator"
	"github.com/pbenner/threadpool"
)

type estData struct {
	x     Vector
	X     []float64
	gamma Vector // log-weights, nil when unweighted
	W     []float64
}

func symData(n int, weighted, positive bool) estData {
	d := estData{X: make([]float64, n), W: make([]float64, n)}
	d.x = NullDenseVector(Float64Type, n)
	if weighted {
		d.gamma = NullDenseVector(Float64Type, n)
	}
	for i := 0; i < n; i++ {
		d.X[i] = VerifFinite64("x")
		if positive {
			VerifAssume(d.X[i] > 0)
		}
		d.x.At(i).SetFloat64(d.X[i])
		d.W[i] = 1
		if weighted {
			w := VerifFinite64("w")
			VerifAssume(w > 0)
			d.W[i] = w
			d.gamma.At(i).SetFloat64(math.Log(w))
		}
	}
	return d
}

func (d estData) sums() (sw, swx, swxx float64) {
	for i := range d.X {
		sw += d.W[i]
		swx += d.W[i] * d.X[i]
		swxx += d.W[i] * d.X[i] * d.X[i]
	}
	return
}

func pool(k int) threadpool.ThreadPool {
	VerifPool(k)
	if k <= 1 {
		return threadpool.Nil()
	}
	return threadpool.New(k, 100)
}

// family 0: normal, 1: exponential, 2: poisson; returns the estimated parameters
func estimate(family int, d estData, p threadpool.ThreadPool, bound float64) ([]float64, bool) {
	var gamma ConstVector
	if d.gamma != nil {
		gamma = d.gamma
	}
	switch family {
	case 0:
		e, err := scalarEstimator.NewNormalEstimator(0, 1, bound)
		if err != nil || e.EstimateOnData(d.x, gamma, p) != nil {
			return nil, false
		}
		pdf, err := e.GetEstimate()
		if err != nil {
			return nil, false
		}
		q := pdf.GetParameters()
		return []float64{q.Float64At(0), q.Float64At(1)}, true
	case 1:
		e, err := scalarEstimator.NewExponentialEstimator(1, bound)
		if err != nil || e.EstimateOnData(d.x, gamma, p) != nil {
			return nil, false
		}
		pdf, err := e.GetEstimate()
		if err != nil {
			return nil, false
		}
		return []float64{pdf.GetParameters().Float64At(0)}, true
	case 2:
		e, err := scalarEstimator.NewPoissonEstimator(1)
		if err != nil || e.EstimateOnData(d.x, gamma, p) != nil {
			return nil, false
		}
		pdf, err := e.GetEstimate()
		if err != nil {
			return nil, false
		}
		return []float64{pdf.GetParameters().Float64At(0)}, true
	}
	return nil, false
}

func verif_C16_score(family, n, weighted int) {
	d := symData(n, weighted == 1, family != 0)
	bound := 0.0
	if family == 1 {
		bound = math.Inf(1)
	}
	q, ok := estimate(family, d, pool(1), bound)
	if !ok {
		return
	}
	VerifReach("score")
	sw, swx, swxx := d.sums()
	switch family {
	case 0:
		mu, sigma := q[0], q[1]
		VerifAssertEqF("normal:score-mu", mu*sw, swx)
		// sum w (x-mu)^2 = sum w x^2 - 2 mu sum w x + mu^2 sum w
		VerifAssertEqF("normal:score-sigma", sigma*sigma*sw, swxx-2*mu*swx+mu*mu*sw)
	case 1:
		VerifAssertEqF("exponential:score-lambda", q[0]*swx, sw)
	case 2:
		VerifAssertEqF("poisson:score-lambda", q[0]*sw, swx)
	}
}

// configured bounds: sigma >= SigmaMin, lambda <= LambdaMax, and the bound is
// only active when the unconstrained estimate lies beyond it
func verif_C16_bounds(family, n int) {
	d := symData(n, false, family != 0)
	b := VerifFinite64("bound")
	VerifAssume(b > 0)
	q, ok := estimate(family, d, pool(1), b)
	if !ok {
		return
	}
	VerifReach("bounds")
	// a clone of the configured estimator is the same estimator
	if family == 0 {
		e, err := scalarEstimator.NewNormalEstimator(0, 1, b)
		if err == nil {
			c := e.CloneScalarEstimator()
			if c.EstimateOnData(d.x, nil, pool(1)) == nil {
				if pdf, err := c.GetEstimate(); err == nil {
					VerifAssertEqF("normal:clone-estimates-the-same-sigma", pdf.GetParameters().Float64At(1), q[1])
				}
			}
		}
	} else if family == 1 {
		e, err := scalarEstimator.NewExponentialEstimator(1, b)
		if err == nil {
			c := e.CloneScalarEstimator()
			if c.EstimateOnData(d.x, nil, pool(1)) == nil {
				if pdf, err := c.GetEstimate(); err == nil {
					VerifAssertEqF("exponential:clone-estimates-the-same-lambda", pdf.GetParameters().Float64At(0), q[0])
				}
			}
		}
	}
	sw, swx, swxx := d.sums()
	switch family {
	case 0:
		mu, sigma := q[0], q[1]
		VerifAssert("normal:sigma-respects-minimum", sigma >= b)
		if sigma > b {
			VerifAssertEqF("normal:score-sigma-inside", sigma*sigma*sw, swxx-2*mu*swx+mu*mu*sw)
		} else {
			VerifAssert("normal:bound-active-only-when-needed", swxx-2*mu*swx+mu*mu*sw <= b*b*sw)
		}
	case 1:
		VerifAssert("exponential:lambda-respects-maximum", q[0] <= b)
		if q[0] < b {
			VerifAssertEqF("exponential:score-lambda-inside", q[0]*swx, sw)
		} else {
			VerifAssert("exponential:bound-active-only-when-needed", b*swx <= sw)
		}
	}
}

// C17: k threads, arbitrary assignment of jobs to threads
func verif_C17_pool(family, n, k, weighted int) {
	d := symData(n, weighted == 1, family != 0)
	bound := 0.0
	if family == 1 {
		bound = math.Inf(1)
	}
	q1, ok1 := estimate(family, d, pool(1), bound)
	qk, okk := estimate(family, d, pool(k), bound)
	VerifAssert("same-outcome-as-sequential", ok1 == okk)
	if !ok1 || !okk {
		return
	}
	VerifReach("pool")
	VerifAssert("no-interference-between-threads", VerifPoolInterference() == 0)
	for i := range q1 {
		VerifAssertEqF("estimate-independent-of-schedule", qk[i], q1[i])
	}
}

// bit-precise: the Normal estimate respects its lower bound and is never NaN,
// also when rounding makes the empirical variance s2 - s1^2 negative
func verif_C16_sigma_fp(n, equal int) {
	d := symData(n, false, false)
	if equal == 1 {
		// repeated observations: the case in which the variance rounds below zero
		for i := 1; i < n; i++ {
			d.X[i] = d.X[0]
			d.x.At(i).SetFloat64(d.X[0])
		}
	}
	for i := 0; i < n; i++ {
		VerifAssume(d.X[i] > -1e100 && d.X[i] < 1e100)
	}
	b := VerifFinite64("bound")
	VerifAssume(b > 0)
	q, ok := estimate(0, d, pool(1), b)
	if !ok {
		return
	}
	VerifReach("sigma-fp")
	sigma := q[1]
	VerifAssert("normal:sigma-not-NaN", sigma == sigma)
	VerifAssert("normal:sigma-respects-minimum", sigma >= b)
}

func init() {
	VerifRegister("verif_C16_sigma_fp", func(a []int) { verif_C16_sigma_fp(a[0], a[1]) })
	VerifRegister("verif_C16_score", func(a []int) { verif_C16_score(a[0], a[1], a[2]) })
	VerifRegister("verif_C16_bounds", func(a []int) { verif_C16_bounds(a[0], a[1]) })
	VerifRegister("verif_C17_pool", func(a []int) { verif_C17_pool(a[0], a[1], a[2], a[3]) })
}
