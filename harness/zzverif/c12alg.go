package zzverif

// C12 for algorithm entry points: a call that does not opt into in-place work
// leaves the caller's input matrix / vector unchanged. The input is put under a
// write watch (every store that changes one of its elements raises the
// obligation immediately, so the iterative routines need not be followed to
// convergence) and compared element-wise after the call (the same label; this
// is what the native replay evaluates).

import (
	. "github.com/pbenner/autodiff"
	"github.com/pbenner/autodiff/algorithm/backSubstitution"
	"github.com/pbenner/autodiff/algorithm/cholesky"
	"github.com/pbenner/autodiff/algorithm/determinant"
	"github.com/pbenner/autodiff/algorithm/eigensystem"
	"github.com/pbenner/autodiff/algorithm/gramSchmidt"
	"github.com/pbenner/autodiff/algorithm/hessenbergReduction"
	"github.com/pbenner/autodiff/algorithm/householderBidiagonalization"
	"github.com/pbenner/autodiff/algorithm/householderTridiagonalization"
	"github.com/pbenner/autodiff/algorithm/matrixInverse"
	"github.com/pbenner/autodiff/algorithm/msqrt"
	"github.com/pbenner/autodiff/algorithm/msqrtInv"
	"github.com/pbenner/autodiff/algorithm/qrAlgorithm"
	"github.com/pbenner/autodiff/algorithm/svd"
)

func c12Unchanged(label string, a ConstMatrix, E [][]float64) {
	for i := range E {
		for j := range E[i] {
			VerifAssertSameBits(label, a.Float64At(i, j), E[i][j])
		}
	}
}

var c12AlgNames = []string{"qrAlgorithm", "qrAlgorithm(Symmetric)", "qrAlgorithm(Symmetric,InSitu.H)", "qrAlgorithm(InSitu.H)",
	"eigensystem", "eigensystem(Symmetric)", "svd", "hessenbergReduction", "householderBidiagonalization",
	"householderTridiagonalization", "gramSchmidt", "cholesky", "cholesky(LDL,ForcePD)", "matrixInverse", "determinant",
	"matrixInverse(PositiveDefinite)", "determinant(PositiveDefinite)", "backSubstitution", "msqrt", "msqrtInv",
	"svd(InSitu.A)", "hessenbergReduction(InSitu.H)", "qrAlgorithm(Symmetric,InSitu-reused)", "eigensystem(Symmetric,InSitu-reused)"}

// which selects the entry point and its options; sym: 2 = symmetric input
func verif_C12_alg(which, kind, n int) {
	structure := 0
	switch which {
	case 1, 2, 5, 9, 11, 12, 15, 16, 18, 22, 23:
		structure = 2
	case 17:
		structure = 1
	}
	a, E := symMatrix(kind, n, structure, "a")
	if which == 18 || which == 19 {
		// matrix square roots: a symmetric strictly diagonally dominant matrix with
		// positive diagonal (hence positive definite, the routine's domain), built
		// from arbitrary inputs: diagonal 2 + x^2, off-diagonal y / (1 + y^2)
		for i := 0; i < n; i++ {
			for j := i; j < n; j++ {
				x := E[i][j]
				if i == j {
					E[i][j] = 2 + x*x
				} else {
					E[i][j] = x / (1 + x*x)
					E[j][i] = E[i][j]
				}
			}
		}
		for i := 0; i < n; i++ {
			for j := 0; j < n; j++ {
				a.At(i, j).SetFloat64(E[i][j])
			}
		}
	}
	t := elemType(kind)
	label := c12AlgNames[which] + ":input-unchanged"
	VerifWatch(label, a)
	VerifPanics(func() {
		switch which {
		case 0:
			qrAlgorithm.Run(a)
		case 1:
			qrAlgorithm.Run(a, qrAlgorithm.Symmetric{true}, qrAlgorithm.ComputeU{true})
		case 2: // work space supplied by the caller (a reused InSitu object looks like this)
			in := &qrAlgorithm.InSitu{H: junkMatrix(kind, n), InitializeH: true}
			qrAlgorithm.Run(a, qrAlgorithm.Symmetric{true}, in)
		case 3:
			in := &qrAlgorithm.InSitu{H: junkMatrix(kind, n), InitializeH: true}
			qrAlgorithm.Run(a, in)
		case 4:
			eigensystem.Run(a)
		case 5:
			eigensystem.Run(a, eigensystem.Symmetric{true})
		case 6:
			svd.Run(a)
		case 7:
			hessenbergReduction.Run(a, hessenbergReduction.ComputeU{true})
		case 8:
			householderBidiagonalization.Run(a, householderBidiagonalization.ComputeU{true}, householderBidiagonalization.ComputeV{true})
		case 9:
			householderTridiagonalization.Run(a, householderTridiagonalization.ComputeU{true})
		case 10:
			gramSchmidt.Run(a)
		case 11:
			cholesky.Run(a)
		case 12:
			cholesky.Run(a, cholesky.LDL{true}, cholesky.ForcePD{true})
		case 13:
			matrixInverse.Run(a)
		case 14:
			determinant.Run(a)
		case 15:
			matrixInverse.Run(a, matrixInverse.PositiveDefinite{true})
		case 16:
			determinant.Run(a, determinant.PositiveDefinite{true})
		case 17:
			b, _ := symVector(kind, n, "b")
			backSubstitution.Run(a, b)
		case 18:
			msqrt.Run(a)
		case 19:
			msqrtInv.Run(a)
		case 20:
			in := &svd.InSitu{A: junkMatrix(kind, n)}
			svd.Run(a, in)
		case 21:
			in := &hessenbergReduction.InSitu{H: junkMatrix(kind, n)}
			hessenbergReduction.Run(a, in)
		case 22: // one InSitu object, empty at first, reused for a second matrix
			in := &qrAlgorithm.InSitu{InitializeH: true, InitializeU: true}
			qrAlgorithm.Run(a, qrAlgorithm.Symmetric{true}, in)
			a2, _ := symMatrix(kind, n, 2, "a2")
			qrAlgorithm.Run(a2, qrAlgorithm.Symmetric{true}, in)
		case 23:
			in := &eigensystem.InSitu{}
			in.QrAlgorithm.InitializeH = true
			in.QrAlgorithm.InitializeU = true
			eigensystem.Run(a, eigensystem.Symmetric{true}, in)
			a2, _ := symMatrix(kind, n, 2, "a2")
			eigensystem.Run(a2, eigensystem.Symmetric{true}, in)
		}
	})
	_ = t
	VerifUnwatch(label)
	c12Unchanged(label, a, E)
	VerifReach("C12-alg")
}

func init() {
	VerifRegister("verif_C12_alg", func(a []int) { verif_C12_alg(a[0], a[1], a[2]) })
}
