#!/usr/bin/env python3
"""triage.py LOG PID : group the violation keys of a check log by function, selected argument positions and label."""
import sys, re, collections
log, pid = sys.argv[1], sys.argv[2]
argpos = [int(x) for x in sys.argv[3].split(',')] if len(sys.argv) > 3 else []
c = collections.Counter(); ex = {}; notes = {}
for l in open(log):
    m = re.match(r'\s+%s/(\w+)\(([-\d,]*)\)/(\S+)(.*)' % pid, l)
    if not m:
        continue
    f, args, label, note = m.groups()
    a = args.split(',')
    k = (f, tuple(a[i] for i in argpos if i < len(a)), label)
    c[k] += 1
    ex.setdefault(k, set()).add(args)
    notes[k] = note.strip()[:100]
for k, v in sorted(c.items()):
    print(v, k, sorted(ex[k])[:6], notes[k])
