#!/bin/bash
# run every registered quick (or thorough) check once against /repo; logs under $OUT
TIER=${1:-quick}; OUT=${2:-/var/tmp/verif_runall}
mkdir -p $OUT; cd /verif
for p in C19 C10 C03 C08 C09 C11 C12 C18 C20 C04 C05 C06 C01 C02 C14 C15 C16 C17 C07; do
  s=$(date +%s)
  timeout 3600 ./check $p --tier $TIER > $OUT/$p.log 2>&1; rc=$?
  echo "$p rc=$rc $(( $(date +%s)-s ))s $(grep -c '^VIOLATION' $OUT/$p.log) violations $(grep -c '^KNOWN-FINDING' $OUT/$p.log) known" | tee -a $OUT/summary.txt
done
