#!/bin/bash
# run every seeded change against the quick check of its property (scratch worktrees), summary to $1
OUT=${1:-/var/tmp/seed_batch.txt}; : > $OUT
for d in /verif/seeded/C*/; do
  s=$(basename $d); p=${s%-*}
  /verif/seedtest.sh $s $p --tier quick --no-selftest | head -3 >> $OUT
done
echo DONE >> $OUT
