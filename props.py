"""Per-property check specifications: overlay files, jobs per tier, bounds."""

ROOT = "github.com/pbenner/autodiff"
RT = ("rt/zz_verif_rt.go", "zz_verif_rt.go")

PROPS = {}

# ----------------------------------------------------------------------------- C19
_AVL_SIZES = None


def _avl_shapes(h):
    if h == 0:
        return [None]
    if h == 1:
        return [(None, None)]
    a, b = _avl_shapes(h - 1), _avl_shapes(h - 2)
    out = [(x, y) for x in a for y in a]
    for x in a:
        for y in b:
            out.append((x, y))
            out.append((y, x))
    return out


def _size(s):
    return 0 if s is None else 1 + _size(s[0]) + _size(s[1])


def _avl_sizes():
    global _AVL_SIZES
    if _AVL_SIZES is None:
        _AVL_SIZES = [_size(s) for h in range(5) for s in _avl_shapes(h)]
    return _AVL_SIZES


def c19_jobs(tier):
    sizes = _avl_sizes()
    nshape = 20 if tier == "quick" else len(sizes)
    jobs = []
    if tier == "quick":
        # one Delete / Insert from every height-4 shape as well: rebalancing that
        # has to propagate through an ancestor first shows at this height
        for sh in range(20, len(sizes)):
            for op in (0, 1):
                jobs.append({"func": "verif_C19_step", "args": [sh, op], "tag": f"shape={sh} n={sizes[sh]}"})
    for sh in range(nshape):
        n = sizes[sh]
        for op in (0, 1):
            jobs.append({"func": "verif_C19_step", "args": [sh, op], "tag": f"shape={sh} n={n} op={'ins' if op == 0 else 'del'}"})
            if sh < 20 or sh % 7 == 0:
                jobs.append({"func": "verif_C19_probe", "args": [sh, op]})
                jobs.append({"func": "verif_C19_clone", "args": [sh, op]})
            for frm in (0, 1):
                js = range(n + 1) if frm == 0 else [0, 1]
                if sh >= 20:
                    # height-4 shapes (thorough tier only): a third of them, three positions
                    if sh % 3 != 0:
                        continue
                    js = [j for j in js if j in (0, n // 2, n - 1)]
                for j in js:
                    jobs.append({"func": "verif_C19_iter", "args": [sh, op, j, frm]})
        jobs.append({"func": "verif_C19_reach", "args": [sh]})
        # two mutations between two Next() calls
        for seq in (0, 1):
            for j in range(n):
                if sh >= 20 and (sh % 5 != 0 or j not in (0, n // 2, n - 1)):
                    continue
                jobs.append({"func": "verif_C19_iter2", "args": [sh, j, seq, 1]})
                if n <= 3 or (tier != "quick" and sh < 20):
                    jobs.append({"func": "verif_C19_iter2", "args": [sh, j, seq, 0]})
    return jobs


PROPS["C19"] = {
    "overlay": [RT, ("root/zz_verif_c19.go", "zz_verif_c19.go")],
    "patterns": ["."],
    "mode": "fp", "intmode": "int",
    "jobs": c19_jobs,
    "reach": ["after-op", "after-probe", "mutated-under-iterator", "mutated-twice-under-iterator", "built"],
    "selftest_vars": ["key", "k", "q", "lb", "k1", "k2"],
    "selftest_kinds": {"key": "sorted", "k": (-50, 50), "q": (-50, 50), "lb": (-50, 50), "k1": (-50, 50), "k2": (-50, 50)},
    "bounds": {"quick": "one Insert/Delete from every AVL shape of height <= 4 (335 shapes, <= 15 nodes); probes, clones and live iterators "
                        "(advanced 0..n steps, one mutation; two mutations incl. delete+re-insert of one key) from every shape of height <= 3; keys symbolic mathematical integers",
               "thorough": "additionally probes / clones from every seventh, live iterators from every third and double mutations from every fifth shape of height 4"},
    "outside": "trees taller than the bound except through the induction argument (every AVL shape is a reachable pre-state); "
               "keys at the int64 boundary (cursor value + 1 overflows); more than one mutation between two Next() calls",
    "assumptions": ["ints are encoded as mathematical integers: keys range over all of Z, which coincides with int64 behaviour "
                    "while no key equals MaxInt64 (the iterator computes value+1)",
                    "pre-states are AVL literals; verif_C19_reach shows each literal is what public Insert calls build"],
}

# ----------------------------------------------------------------------------- C10
import os as _os
_H = _os.path.join(_os.path.dirname(_os.path.abspath(__file__)), "harness")
VIEWS = ("root/zz_verif_views.go", "zz_verif_views.go")


def _c10_hdr(mtype, transposable):
    frag = open(_os.path.join(_H, "tmpl", "c10_transpose.frag")).read() if transposable else ""
    return ("tmpl/zz_verif_c10_header.go.tmpl", f"zz_verif_c10_header_{mtype}.go", {
        "TRANSPOSE_HARNESS": frag,
        "TRANSPOSE_REGISTER": 'VerifRegister("verif_C10_T_MTYPE", func(a []int) { verif_C10_T_MTYPE(a[0]) })' if transposable else "",
        "TRANSPOSED_SET": "m.transposed = tr == 1" if transposable else "_ = tr",
        # ij() is dead code in the dense matrices (no caller), so only the sparse
        # instantiations, whose iterators report positions through it, assert it
        "IJ_CHECK": "" if transposable else 'a, b := m.ij(k)\n\tVerifAssert("ij-inverts-index:i", a == i)\n\tVerifAssert("ij-inverts-index:j", b == j)',
        # Real matrices allocate scratch vectors of the slice's extent inside SLICE
        "SLICE_EXTENT": "3" if "Real" in mtype else "B",
        "MTYPE": mtype,
    })


C10_DENSE = ["DenseFloat64Matrix", "DenseReal64Matrix", "DenseFloat32Matrix", "DenseReal32Matrix", "DenseIntMatrix"]
C10_SPARSE = ["SparseFloat64Matrix", "SparseReal64Matrix"]
C10_NOPS = 18


def c10_jobs(tier):
    jobs = []
    for mt in C10_DENSE:
        for tr in (0, 1):
            for f in ("index", "slice", "T"):
                jobs.append({"func": f"verif_C10_{f}_{mt}", "args": [tr], "selftest": False})
    for mt in C10_SPARSE:
        for f in ("index", "slice"):
            jobs.append({"func": f"verif_C10_{f}_{mt}", "args": [0], "selftest": False})
    kinds = [0, 1, 2, 3] if tier == "quick" else [0, 1, 2, 3, 4, 5, 6, 7]
    shapes = [(3, 3)] if tier == "quick" else [(3, 3), (3, 4), (2, 3)]
    for kind in kinds:
        for (R, C) in (shapes if kind < 4 else shapes[:1]):  # 32-bit element types: same template text, one shape
            vks = [0, 1, 2, 3, 4, 6] if tier == "quick" else [0, 1, 2, 3, 4, 5, 6, 7]
            for vk in vks:
                for op in range(C10_NOPS):
                    masks = [0]
                    if op in (0, 4, 16, 12) or (tier != "quick" and kind < 4):
                        masks = [0, 0b010110010 & ((1 << (R * C)) - 1)]
                    for zm in masks:
                        jobs.append({"func": "verif_C10_ops", "args": [kind, vk, op, R, C, zm],
                                     "tag": f"kind={kind} view={vk} op={op} {R}x{C} zmask={zm:b}"})
                for zm in (0, 0b010110010 & ((1 << (R * C)) - 1)):
                    jobs.append({"func": "verif_C10_ops", "args": [kind, vk, 19, R, C, zm], "tag": f"kind={kind} view={vk} op=19 (JSON) {R}x{C} zmask={zm:b}"})
            for vk in (8, 9):
                jobs.append({"func": "verif_C10_ops", "args": [kind, vk, 18, R, C, 0]})
            jobs.append({"func": "verif_C10_tip", "args": [kind, R, C]})
            if R != C:
                jobs.append({"func": "verif_C10_tip", "args": [kind, C, R]})
    return jobs


PROPS["C10"] = {
    "overlay": [RT, VIEWS, ("root/zz_verif_c10.go", "zz_verif_c10.go")]
    + [_c10_hdr(t, True) for t in C10_DENSE] + [_c10_hdr(t, False) for t in C10_SPARSE],
    "mode": "fp", "intmode": "int",
    "jobs": c10_jobs,
    "reach": ["inside", "outside", "slice", "T", "view-built", "tip"],
    "selftest_vars": ["v", "s", "a", "b", "c", "x", "y", "w", "r0", "dr", "c0", "dc"],
    "selftest_kinds": {"r0": (0, 1), "dr": (0, 1), "c0": (0, 1), "dc": (0, 1)},
    "bounds": {"quick": "layer 1: headers with all extents symbolic in [0,2^20] (Int/NIA), dense Float64/Real64/Float32/Real32/Int and sparse Float64/Real64; "
                        "layer 2: 3x3 parents, symbolic finite non-zero elements plus one interleaved zero pattern, Slice/T compositions of depth <= 2 with all slice bounds, 18 operation groups, "
                        "dense+sparse Float64/Real64",
               "thorough": "layer 2 also 3x4 and 2x3 parents, depth-3 composition S;T;S, Float32/Real32 kinds, zero pattern on every operation"},
    "outside": "printing/Table/Export of views (string formatting); parents larger than 3x4",
    "assumptions": ["header extents <= 2^20 so the Int encoding coincides with int64 arithmetic (largest product < 2^41)",
                    "map iteration order modelled as ascending key order"],
}

# ----------------------------------------------------------------------------- scalars (C08, C09)
SCALAR_COMMON = ("root/zz_verif_scalar_common.go", "zz_verif_scalar_common.go")


def _scalar_real(rt):
    ft = "float64" if rt == "Real64" else "float32"
    return ("tmpl/zz_verif_scalar_real.go.tmpl", f"zz_verif_scalar_{rt}.go",
            {"RTYPE": rt, "VerifFTYPE_CAP": "VerifFloat64" if rt == "Real64" else "VerifFloat32", "FTYPE": ft})


S_NOPS = 33
S_CONC = list(range(15)) + [32]
S_BINARY = [0, 1, 4, 5, 6, 7, 8, 9, 10]
S_TEMP = [8, 9, 16]


def _c09_cont(et):
    k = {"Float64": (0, 2), "Real64": (1, 3), "Float32": (4, 6), "Real32": (5, 7)}[et]
    return ("tmpl/zz_verif_c09_cont.go.tmpl", f"zz_verif_c09_cont_{et}.go", {
        "DVTYPE": f"Dense{et}Vector", "SVTYPE": f"Sparse{et}Vector", "DMTYPE": f"Dense{et}Matrix", "KDENSE": str(k[0]), "KSPARSE": str(k[1]),
        "NEWSCALAR(s)": (f"New{et}(s)" if "64" in et else f"New{et}(float32(s))"),
        "VerifFINITE": "VerifFinite64", "ETYPE": et})


def c09_cont_jobs(tier):
    jobs = []
    quick = tier == "quick"

    def enc(ds):
        v = 0
        for d in reversed(ds):
            v = v * 4 + d
        return v
    vp = [enc(x) for x in ([0, 0, 0], [1, 0, 1], [2, 0, 1], [0, 1, 0])]
    if not quick:
        vp += [enc(x) for x in ([1, 1, 1], [3, 0, 1], [0, 0, 1])]
    # (the Float32 / Real32 containers come from the same templates; their harness needs float32-exact scalars and is not run)
    for et in ["Float64", "Real64"]:
        for sparse in (0, 1):
            for op in range(10):
                if op == 9 and sparse == 0:
                    continue
                for alias in (0, 1):
                    for pa in vp:
                        pbs = vp[:3] if op in (0, 1, 2, 8) else vp[:1]
                        if quick:
                            pbs = pbs[:2]
                        for pb in pbs:
                            prs = [vp[0], vp[1]] if alias == 0 and sparse == 1 else [vp[0]]
                            for pr in prs:
                                jobs.append({"func": f"verif_C09_vec_{et}", "args": [op, sparse, alias, 3, pa, pb, pr],
                                             "tag": f"{et} vec op={op} sparse={sparse} alias={alias}"})
        mp = [enc([0, 0, 0, 0]), enc([1, 0, 0, 1]), enc([0, 2, 1, 0])]
        for op in range(11):
            for alias in (0, 1, 2):
                for pa in mp[:2 if quick else 3]:
                    for pb in (mp[:2] if op in (0, 1, 2, 8, 10) else mp[:1]):
                        jobs.append({"func": f"verif_C09_mat_{et}", "args": [op, alias, pa, pb, mp[0]], "tag": f"{et} mat op={op} alias={alias}"})
    return jobs


def c09_jobs(tier):
    jobs = c09_cont_jobs(tier)
    rts = ["Real64", "Real32"]
    cfgs = [0, 2, 3, 5] if tier == "quick" else list(range(8))
    for rt in rts:
        for op in S_CONC:
            for cfg in cfgs:
                for al in ((0, 1, 2) if op in S_BINARY else (0, 1)):
                    jobs.append({"func": f"verif_C09_scalar_{rt}", "args": [op, cfg, al], "tag": f"{rt} op={op} cfg={cfg} alias={al}"})
        for cfg in cfgs:
            jobs.append({"func": f"verif_C09_pred_{rt}", "args": [cfg]})
    return jobs


PROPS["C09"] = {
    "overlay": [RT, SCALAR_COMMON, _scalar_real("Real64"), _scalar_real("Real32"), VIEWS, ("root/zz_verif_c03.go", "zz_verif_c03.go")]
    + [_c09_cont(et) for et in ("Float64", "Real64", "Float32", "Real32")],
    "bounded": True,
    "mode": "fp", "intmode": "int",
    "jobs": c09_jobs,
    "reach": ["C09-scalar", "C09-pred", "C09-vec", "C09-mat"],
    "selftest_vars": ["a", "a.d", "a.h", "b", "b.d", "b.h", "r", "r.d", "r.h", "t", "t.d", "s", "v", "w", "v.d", "w.d"],
    "bounds": {"quick": "containers: every Xyz/XYZ pair of dense vectors, sparse vectors (length 3) and dense matrices (2x2) with Float64/Real64 elements, zero patterns enumerated, receiver distinct or aliasing an operand; "
                        "scalars: every Xyz/XYZ pair of Real64 and Real32 on fully symbolic jets (any float incl. NaN/Inf/zeros), N<=2, order<=2, "
                        "constant and mismatching-order operand structures, symbolic prior receiver content",
               "thorough": "all eight operand structures of the scalars; more zero patterns of the containers (incl. zero values that carry a derivative)"},
    "outside": "sparse matrices (their typed methods mirror the generic ones line by line from the same template; not run), integer and Float32 containers in the quick tier, vectors longer than 3 and matrices larger than 2x2, the reductions built on special.* beyond agreement of the two code paths on the same uninterpreted heads",
    "assumptions": ["symbolic element values, derivative slots and scalars are zero or of a magnitude in [2^-100, 2^100] (float32: [2^-30, 2^30]): a single operation then neither overflows nor underflows (without the bound the dense and the sparse code differ in corners such as 0/b with b^2 underflowing: NaN against a skipped entry)", "libm functions are uninterpreted (same head and argument give the same value), special.* by name"],
}


def c08_cont_jobs(tier):
    jobs = []
    quick = tier == "quick"

    def enc(ds):
        v = 0
        for d in reversed(ds):
            v = v * 4 + d
        return v
    vp = [enc(x) for x in ([0, 0, 0], [1, 0, 1], [2, 0, 1])]
    mp = [enc([0, 0, 0, 0]), enc([1, 0, 0, 1])]
    kinds = [0, 1, 2, 3] if quick else list(range(8))
    for kind in kinds:
        for op in range(9):
            for alias in ((1, 2, 3) if op in (0, 1, 2, 3) else (1,)):
                for pa in vp:
                    for pb in (vp[:2] if op in (0, 1, 2) else vp[:1]):
                        jobs.append({"func": "verif_C08_vec", "args": [op, kind, alias, 3, pa, pb], "tag": f"vec op={op} kind={kind} alias={alias}"})
        for op in range(8):
            for alias in ((1, 2, 3) if op in (0, 1, 2, 3, 6) else (1,)):
                for pa in mp:
                    for pb in (mp if op in (0, 2, 6) else mp[:1]):
                        jobs.append({"func": "verif_C08_mat", "args": [op, kind, alias, 2, pa, pb], "tag": f"mat op={op} kind={kind} alias={alias}"})
        if kind in (0, 1, 4, 5):
            for op in range(3):
                for cfg in range(6):
                    jobs.append({"func": "verif_C08_views", "args": [op, kind, cfg], "tag": f"views op={op} kind={kind} cfg={cfg}"})
            for r0 in (0, 1):
                for left in (0, 1):
                    jobs.append({"func": "verif_C08_views2", "args": [kind, r0, left]})
            jobs.append({"func": "verif_C08_views2", "args": [kind, 0, 2], "tag": f"views2 kind={kind} workspace [G|B]"})
        jobs.append({"func": "verif_C08_dotpanic", "args": [kind]})
    return jobs


def c08_jobs(tier):
    jobs = c08_cont_jobs(tier)
    cfgs = [0, 2, 3, 5] if tier == "quick" else list(range(8))
    for rt in ["Real64", "Real32"]:
        for op in range(S_NOPS):
            for cfg in cfgs:
                aliases = [1, 2, 3] if op in S_BINARY else [1]
                for al in aliases:
                    for conc in (0, 1):
                        if conc == 1 and op not in S_CONC:
                            continue
                        jobs.append({"func": f"verif_C08_scalar_{rt}", "args": [op, cfg, al, conc],
                                     "tag": f"{rt} op={op} cfg={cfg} alias={al} conc={conc}"})
        for op in S_TEMP:
            for cfg in cfgs:
                jobs.append({"func": f"verif_C08_temp_{rt}", "args": [op, cfg]})
    return jobs


PROPS["C08"] = {
    "overlay": [RT, SCALAR_COMMON, _scalar_real("Real64"), _scalar_real("Real32"), VIEWS, ("root/zz_verif_c03.go", "zz_verif_c03.go"),
                ("root/zz_verif_c08_cont.go", "zz_verif_c08_cont.go")],
    "mode": "fp", "intmode": "int",
    "jobs": c08_jobs,
    "reach": ["C08-scalar", "C08-temp", "C08-vec", "C08-mat", "C08-views", "C08-views2", "C08-dotpanic"],
    "selftest_vars": ["a", "a.d", "a.h", "b", "b.d", "b.h", "r", "r.d", "r.h", "t", "t.d", "t.h", "s", "p", "x", "p.d", "x.d", "v", "v.d"],
    "bounds": {"quick": "containers: element-wise vector (length 3) and matrix (2x2) operations and MdotM with the receiver being the first, second or both operands, dense and sparse Float64/Real64, zero patterns enumerated; "
                        "MdotM/MaddM/MmulM with receiver and operands being views (Slice, T) of one 3x3 dense parent; MdotV/VdotM alias rejection; scalars: every operation of Real64/Real32 with the receiver aliasing the first, the second or both operands, generic and CONCRETE methods, "
                        "fully symbolic jets N<=2, order<=2 incl. constant operands and mismatching orders; temporaries with arbitrary content",
               "thorough": "all eight operand structures"},
    "outside": "aliasing through views of sparse matrices, three-way aliasing beyond receiver = both operands, aliasing of temporaries with operands (documented as forbidden), vectors longer than 3 and matrices larger than 2x2 / views of parents larger than 3x3",
    "assumptions": ["libm functions are uninterpreted (same head and argument give the same value), special.* by name"],
}

# ----------------------------------------------------------------------------- C03
def _pats(n, tier, rich):
    """zero patterns as base-4 numbers over n positions: 0 symbolic non-zero, 1 zero/absent, 2 stored zero, 3 zero value with derivative"""
    def enc(ds):
        v = 0
        for d in reversed(ds):
            v = v * 4 + d
        return v
    if n == 3:
        base = [[0, 0, 0], [1, 0, 0], [0, 0, 1], [0, 1, 0], [1, 1, 1], [2, 0, 1], [1, 0, 1], [3, 0, 1]]
        if tier != "quick" and rich:
            base += [[0, 2, 0], [2, 2, 2], [1, 1, 0], [0, 1, 1], [2, 1, 0]]
    else:
        base = [[0] * n, [1] + [0] * (n - 1), [0] * (n - 1) + [1], [1] * n, [i % 2 for i in range(n)], [2 if i == 1 else (i + 1) % 2 for i in range(n)]]
    return [enc(b) for b in base]


def c03_jobs(tier):
    jobs = []
    quick = tier == "quick"
    # (the 32-bit families come from the same templates; their harness needs float32-exact scalars throughout and is not run)
    fams = [(0, 2), (1, 3)]
    n = 3
    pats = _pats(n, tier, True)
    for fi, (dk, sk) in enumerate(fams):
        kinds = (dk, sk)
        # lean: in quick Real64 runs only the operations whose derivative handling differs;
        # in thorough the 32-bit families (same template text) do
        lean = (quick and fi > 0) or (not quick and fi >= 2)
        for op in range(14):
            if lean and op not in (0, 2, 3, 6, 8, 10, 13):
                continue
            for rk in kinds:
                for ak in kinds:
                    for bk in kinds:
                        if op in (4, 5, 6, 7, 8, 9, 11, 13) and bk != dk:
                            continue  # second operand unused
                        if rk == dk and ak == dk and bk == dk:
                            continue  # the all-dense run is the oracle
                        pas = pats
                        pbs = [pats[0], pats[3], pats[5]] if op in (0, 1, 2, 10, 12) else [pats[0]]
                        prs = [pats[0], pats[4], pats[2]]
                        if not quick:
                            # thorough: all patterns of a, two of b and of the receiver's prior content
                            pbs = [pbs[0], pbs[-1]] if len(pbs) > 1 else pbs
                            prs = [pats[0], pats[2]]
                        if quick:
                            pas = [pats[0], pats[3], pats[5], pats[6]]
                            pbs = pbs[:2]
                            prs = [pats[0], pats[2]]
                        if lean:
                            pas, pbs, prs = [pats[3], pats[5], pats[7]], pbs[:1] if op != 2 else pbs[:2], [pats[0], pats[2]]
                        for pa in pas:
                            for pb in pbs:
                                for pr in prs:
                                    if op in (10, 11, 12, 13) and pr != prs[0]:
                                        continue
                                    jobs.append({"func": "verif_C03_vec", "args": [op, rk, ak, bk, n, pa, pb, pr],
                                                 "tag": f"vec op={op} r={rk} a={ak} b={bk} pa={pa} pb={pb} pr={pr}"})
        # matrices 2x3 (flattened patterns over 6 positions)
        R, C = 2, 3
        mp = _pats(R * C, tier, False)
        vp2, vp3 = _pats(2, tier, False), _pats(3, tier, False)
        for op in range(14):
            if lean and op not in (2, 7, 8, 10, 11):
                continue
            for rk in kinds:
                for ak in kinds:
                    for bk in kinds:
                        if op in (4, 5, 6, 11, 12, 13) and bk != dk:
                            continue
                        if op == 12 and ak != dk:
                            continue
                        if rk == dk and ak == dk and bk == dk:
                            continue
                        if op in (0, 1, 2, 3, 4, 5, 6, 11, 13):
                            pas, pbs, prs = mp[:5], ([mp[0], mp[4]] if op in (0, 1, 2) else [mp[0]]), [mp[0], mp[4]]
                        elif op == 7:
                            pas, pbs, prs = mp[:5], [mp[0], mp[4]], [0, 1 + 64]
                        elif op == 8:
                            pas, pbs, prs = mp[:5], [vp3[0], vp3[4]], [vp2[0], vp2[1]]
                        elif op == 9:
                            pas, pbs, prs = [vp2[0], vp2[1], vp2[3]], [mp[0], mp[4]], [vp3[0], vp3[4]]
                        elif op == 10:
                            pas, pbs, prs = [vp2[0], vp2[1]], [vp3[0], vp3[4], vp3[3]], [mp[0], mp[4]]
                        else:
                            pas, pbs, prs = [mp[0]], [mp[0]], [mp[0], mp[4], mp[3]]
                        if op == 13:
                            prs = [mp[0]]
                        if quick:
                            pas = [pas[0], pas[-1]] if len(pas) > 1 else pas
                            pbs = pbs[:1] if op not in (2, 7, 10) else pbs[:2]
                            prs = [prs[0], prs[-1]] if len(prs) > 1 else prs
                        if lean:
                            pas, pbs = pas[-1:], pbs[-1:]
                        for pa in pas:
                            for pb in pbs:
                                for pr in prs:
                                    jobs.append({"func": "verif_C03_mat", "args": [op, rk, ak, bk, R, C, pa, pb, pr],
                                                 "tag": f"mat op={op} r={rk} a={ak} b={bk} pa={pa} pb={pb} pr={pr}"})
        for pa in pats:
            jobs.append({"func": "verif_C03_ctor", "args": [sk, n, pa]})
    # constant sparse vectors: every order of first use
    for pat in ((0b1010, 0b0110, 0b1111, 0b1001) if quick else range(16)):
        for jj in (1, 2, 3):
            for order in range(3):
                jobs.append({"func": "verif_C03_constsparse", "args": [pat, jj, order], "tag": f"constsparse pat={pat} j={jj} order={order}"})
    return jobs


PROPS["C03"] = {
    "overlay": [RT, VIEWS, ("root/zz_verif_c03.go", "zz_verif_c03.go"), ("root/zz_verif_c03_const.go", "zz_verif_c03_const.go")],
    "bounded": True,
    "mode": "fp", "intmode": "int",
    "jobs": c03_jobs,
    "reach": ["C03-vec", "C03-mat", "C03-ctor", "C03-constsparse"],
    "selftest_vars": ["a", "b", "r", "s", "a.d", "b.d", "r.d"],
    "bounds": {"quick": "vectors of length 3 and 2x3 matrices, Float64 and Real64 elements (values and one gradient slot), every dense/sparse combination of receiver and operands, "
                        "zero patterns enumerated (leading, trailing, interleaved, all-zero, explicitly stored zeros), non-zero elements symbolic finite floats, symbolic prior receiver content; "
                        "constant sparse vectors (length 4, 4 support patterns): positional reads, iteration, ConstSlice and dense.Set agree with the dense model in three orders of first use",
               "thorough": "more zero patterns and every operation for Real64 as well; all 16 support patterns of the constant sparse vectors"},
    "outside": "dimensions above 3 / 2x3; element values that are infinite or NaN; integer element types; map-order dependence of Reduce",
    "assumptions": ["symbolic element values, derivative slots and scalars are zero or of a magnitude in [2^-100, 2^100] (float32: [2^-30, 2^30]): a single operation then neither overflows nor underflows (without the bound the dense and the sparse code differ in corners such as 0/b with b^2 underflowing: NaN against a skipped entry)", "map iteration order modelled as ascending key order", "non-zero elements are finite (0*Inf style differences between skipping and multiplying are outside the statement's 'mathematical result')"],
}

# ----------------------------------------------------------------------------- C11
def _nkeys(pat, n):
    k = 0
    for i in range(n):
        if (pat // 4 ** i) % 4 != 1:
            k += 1
    return k


def c11_jobs(tier):
    jobs = []
    quick = tier == "quick"
    n = 3
    nshapes = {0: 1, 1: 1, 2: 2, 3: 1, 4: 4}

    def enc(ds):
        v = 0
        for d in reversed(ds):
            v = v * 4 + d
        return v
    if quick:
        pats = [enc(p) for p in ([0, 0, 0], [1, 1, 1], [0, 1, 0], [1, 0, 1], [2, 0, 1], [0, 2, 0], [3, 0, 1], [0, 1, 3], [1, 0, 0], [0, 0, 1], [2, 1, 2], [0, 3, 0])]
    else:
        pats = list(range(4 ** n))
    xpats = [enc([0, 0, 0]), enc([1, 0, 1]), enc([0, 1, 2])]
    for pat in pats:
        for sh in range(nshapes[_nkeys(pat, n)]):
            def J(op, a1=0, a2=0):
                jobs.append({"func": "verif_C11_step", "args": [n, pat, sh, op, a1, a2], "tag": f"n={n} pat={pat} shape={sh} op={op} a=({a1},{a2})"})
            for i in range(n):
                J(0, i)
                J(1, i)
                J(11, i)
            for xp in xpats:
                for k in (0, 2):
                    J(2, xp, k)
                    J(13, xp, k)
            J(3)
            for i in range(n):
                for j in range(i, n):
                    J(4, i, j)
            for p in range(6):
                J(5, p)
            J(6, 0)
            J(6, 1)
            J(7)
            for i in range(n + 1):
                for j in range(i, n + 1):
                    if quick and (i, j) not in ((0, 3), (1, 3), (0, 2), (1, 2), (2, 2)):
                        continue
                    J(8, i, j)
            J(9, enc([0, 1]))
            J(9, enc([2, 0]))
            J(10)
            for k in range(n):
                J(14, k)
            for k in range(n):
                for pos in range(n):
                    if quick and (k + pos) % 2 == 1:
                        continue
                    J(12, k, pos)
    # matrices 2x2
    for pat in ([enc([0, 0, 0, 0]), enc([1, 0, 0, 1]), enc([0, 1, 2, 0]), enc([1, 1, 1, 1])]):
        for a1 in range(4):
            jobs.append({"func": "verif_C11_matrix", "args": [2, 2, pat, 0, a1, 0]})
            jobs.append({"func": "verif_C11_matrix", "args": [2, 2, pat, 3, a1, 0]})
            for a2 in range(a1 + 1, 4):
                jobs.append({"func": "verif_C11_matrix", "args": [2, 2, pat, 2, a1, a2]})
        jobs.append({"func": "verif_C11_matrix", "args": [2, 2, pat, 1, 0, 0]})
    return jobs


PROPS["C11"] = {
    "overlay": [RT, VIEWS, ("root/zz_verif_c03.go", "zz_verif_c03.go"), ("root/zz_verif_c19.go", "zz_verif_c19.go"), ("root/zz_verif_c11.go", "zz_verif_c11.go")],
    "mode": "fp", "intmode": "int",
    "jobs": c11_jobs,
    "reach": ["C11-pre", "C11-post", "C11-matrix"],
    "selftest_vars": ["v", "w", "x", "s"],
    "bounds": {"quick": "SparseFloat64Vector of dimension 3: 12 representation patterns (stored non-zero / absent / stored zero / index key without value per position) x every AVL index shape over the keys, "
                        "one public operation (15 groups, all in-range arguments) with symbolic values; 2x2 sparse matrices from public constructors",
               "thorough": "all 64 representation patterns"},
    "outside": "dimension above 3; element types other than Float64 (same template text); histories are covered through the inductive step: pre-states are arbitrary representations satisfying the weak invariant "
               "(values' keys are in the index, no nil scalars, AVL invariants)",
    "assumptions": ["map iteration order modelled as ascending key order",
                    "for Permute/Sort/ReverseOrder the dense vector implementation run on the same data is the model"],
}

# ----------------------------------------------------------------------------- C18
def c18_jobs(tier):
    jobs = []
    quick = tier == "quick"

    def enc(ds):
        v = 0
        for d in reversed(ds):
            v = v * 4 + d
        return v
    for k in range(6):
        jobs.append({"func": "verif_C18_scalar", "args": [k]})
    vp = [enc(x) for x in ([0, 0, 0], [1, 0, 1], [2, 0, 1], [1, 1, 1], [0, 1, 0])]
    kinds = [0, 1, 2, 3] if quick else list(range(8))
    for kind in kinds:
        for pa in vp:
            jobs.append({"func": "verif_C18_vector", "args": [kind, 3, pa]})
        jobs.append({"func": "verif_C18_vector", "args": [kind, 0, 0]})
        mps = [0, enc([1, 0, 0, 0, 1, 0, 2, 0, 1])]
        for vk in ([0, 1, 2, 3, 4, 6] if quick else [0, 1, 2, 3, 4, 5, 6, 7]):
            for pa in mps:
                jobs.append({"func": "verif_C18_matrix", "args": [kind, vk, pa], "tag": f"kind={kind} view={vk} pa={pa}"})
    for r in range(0, 3):
        for c in range(0, 3):
            jobs.append({"func": "verif_C18_malformed", "args": [0, r, c]})
    for n in range(0, 3):
        jobs.append({"func": "verif_C18_malformed", "args": [1, n, 0]})
    jobs.append({"func": "verif_C18_malformed", "args": [2, 0, 0]})
    jobs.append({"func": "verif_C18_malformed", "args": [3, 0, 0]})
    # distributions as configurations (zzverif/c18cfg.go): real interpretation
    for (m, ss, fs) in ([(2, 0, 0), (2, 1, 2), (2, 0, 1), (1, 0, 0)] if quick else [(2, 0, 0), (2, 1, 2), (2, 0, 1), (2, 2, 3), (1, 0, 0), (3, 0, 4), (3, 1, 6)]):
        jobs.append({"pkg": ZZ, "func": "verif_C18_hmmconfig", "args": [m, ss, fs], "mode": "real", "intmode": "int",
                     "tag": f"hmmconfig m={m} start={ss} final={fs}", "max_wall_ms": 120000, "summarise_logadd": True})
    for w in range(8):
        jobs.append({"pkg": ZZ, "func": "verif_C18_distconfig", "args": [w], "mode": "real", "intmode": "int", "tag": f"distconfig {w}"})
    return jobs


PROPS["C18"] = {
    "overlay": [RT, VIEWS, SCALAR_COMMON, _scalar_real("Real64"), ("root/zz_verif_c03.go", "zz_verif_c03.go"), ("root/zz_verif_c18.go", "zz_verif_c18.go"),
                ("zzverif/c04.go", "zzverif/c04.go"), ("zzverif/c15.go", "zzverif/c15.go"), ("zzverif/c18cfg.go", "zzverif/c18cfg.go")],
    "patterns": [".", "./zzverif"],
    "replay_tol": 1e-9,
    "mode": "fp", "intmode": "int",
    "jobs": c18_jobs,
    "reach": ["C18-scalar", "C18-vector", "C18-matrix", "C18-malformed", "C18-hmmconfig", "C18-distconfig"],
    "selftest_vars": ["x", "x.d", "x.h", "a", "a.d", "v", "v.d", "d", "h"],
    "bounds": {"quick": "JSON pairs of Float64/Float32/Int/ConstFloat64/Real64 scalars (jets N=2, order<=2), dense/sparse Float64/Real64 vectors (length 3, zero patterns) and matrices (Slice/T views of a 3x3 parent, "
                        "all slice bounds); malformed documents: dense-matrix documents with every Rows,Cols in 0..2 and 0..6 values, sparse-vector documents with <=2 indices in -1..2 and <=2 values, Real64 documents with mismatching derivative/Hessian sizes, wrong kinds; "
                        "configurations: ExportConfig -> JSON -> ImportConfig of generic.Hmm (m<=2, start / final state sets) and of 8 scalar families with symbolic parameters (real interpretation)",
               "thorough": "also Float32/Real32 containers and depth-3 views; Hmm configurations with m=3"},
    "outside": "number formatting and parsing (the contract 'float64 round-trips exactly' of encoding/json is assumed), Export/Import table files, gzip, arbitrary byte strings as reader input; configurations: generic.Hmm and 8 scalar families only (nested emission distributions, mixtures and the registry lookup by name are not encoded)",
    "assumptions": ["encoding/json is replaced by a data-model stub: Marshal maps Go values to trees of number/string/bool/null/array/object-by-exported-field-name with the number leaves carried through unchanged, Unmarshal assigns by field name and reports kind mismatches; decoding into interface{} yields map[string]interface{} / []interface{} / float64 / string / bool as documented",
                    "package reflect (Kind, Float, Bool, String, Len, Index, Elem, Interface, MapIndex, IsValid) is a data-model stub over the executor's values",
                    "configuration round trips: floats read as reals (the file holds probabilities, the object logarithms)"],
}

# ----------------------------------------------------------------------------- C12
def c12_jobs(tier):
    jobs = []
    quick = tier == "quick"

    def enc(ds):
        v = 0
        for d in reversed(ds):
            v = v * 4 + d
        return v
    vp = [enc(x) for x in ([0, 0, 0], [1, 0, 1], [2, 0, 1], [3, 0, 1])]
    # (Float32 / Real32 containers: same template text; the sparse 32-bit clones of views exhaust the path cap and are not run)
    kinds = [0, 1, 2, 3] if quick else [0, 1, 2, 3, 4, 5]
    mps = [0, enc([1, 0, 0, 0, 1, 0, 2, 0, 1])]
    for kind in kinds:
        for how in range(4):
            for pa in vp:
                jobs.append({"func": "verif_C12_vec", "args": [kind, how, 3, pa], "tag": f"vec kind={kind} how={how} pa={pa}"})
            for vk in ([0, 1, 2, 4, 6] if quick else [0, 1, 2, 3, 4, 5, 6, 7]):
                for pa in (mps if how in (0, 2) else mps[:1]):
                    jobs.append({"func": "verif_C12_mat", "args": [kind, how, vk, pa], "tag": f"mat kind={kind} how={how} view={vk} pa={pa}"})
        for pa in vp[:3]:
            jobs.append({"func": "verif_C12_iter", "args": [kind, 3, pa]})
        for op in range(6):
            for pa in (0, enc([1, 0, 0, 1])):
                jobs.append({"func": "verif_C12_operands", "args": [kind, op, pa, 0 if op == 3 else pa]})
    for w in range(8):
        jobs.append({"func": "verif_C12_scalar", "args": [w]})
    for pa in vp[:3]:
        jobs.append({"func": "verif_C12_ctor", "args": [3, pa]})
    # algorithm entry points under a write watch (zzverif/c12alg.go)
    for which in range(24):
        # (the terms of these runs are large: a process that follows a 3x3 factorisation for a minute holds
        # several GB, so the thorough tier adds Real64 and a longer budget at n = 2 and keeps n = 3 short)
        for (kind, n) in ([(0, 2)] if quick else [(0, 2), (1, 2), (0, 3)]):
                jobs.append({"pkg": ZZ, "func": "verif_C12_alg", "args": [which, kind, n], "tag": f"alg which={which} kind={kind} n={n}",
                             "bfs": True, "max_paths": 24 if (quick or n == 3) else 48, "max_wall_ms": 20000 if (quick or n == 3) else 45000, "selftest": True})
                if which in (0, 1, 2, 3, 4, 5, 6, 18, 19, 20, 22, 23):
                    # iterative routines: also depth first, which follows the convergence loop (the
                    # breadth-first job sees the early exits) until the step bound
                    if kind != 0 or n != 2:
                        continue  # followed runs keep every term of the run alive: Float64, n = 2, bounded depth
                    jobs.append({"pkg": ZZ, "func": "verif_C12_alg", "args": [which, kind, n], "tag": f"alg-deep which={which} kind={kind} n={n}",
                                 "max_paths": 6 if quick else 10, "max_steps": 400000 if quick else 250000, "max_wall_ms": 25000 if quick else 90000, "selftest": False,
                                 "follow": "c12"})
    return jobs


PROPS["C12"] = {
    "overlay": [RT, VIEWS, SCALAR_COMMON, _scalar_real("Real64"), ("root/zz_verif_c03.go", "zz_verif_c03.go"), ("root/zz_verif_c12.go", "zz_verif_c12.go"),
                ("zzverif/c04.go", "zzverif/c04.go"), ("zzverif/c05.go", "zzverif/c05.go"), ("zzverif/c12alg.go", "zzverif/c12alg.go")],
    "patterns": [".", "./zzverif"],
    "mode": "fp", "intmode": "int",
    "jobs": c12_jobs,
    "reach": ["C12-vec", "C12-mat", "C12-scalar", "C12-iter", "C12-operands", "C12-ctor", "C12-alg"],
    "selftest_vars": ["a", "a.d", "a.h", "v", "v.d", "w", "w.d", "w.h", "u", "u.d", "u.h", "b", "b.d", "f", "g"],
    "bounds": {"quick": "Clone*/As* of dense and sparse Float64/Real64 vectors (length 3) and matrices (Slice/T views of a 3x3 parent, all slice bounds), Real64/Float64 scalars (jets N=2, order 2), iterator clones; "
                        "symbolic element values, every position of clone / source mutated with symbolic values; read-only operands of 6 operation groups; index/value constructors; 24 algorithm entry-point configurations (incl. an InSitu object reused for a second matrix) (qrAlgorithm incl. Symmetric and caller-supplied work space, eigensystem, svd, Hessenberg / bidiagonal / tridiagonal reductions, Gram-Schmidt, Cholesky, inverse, determinant, back substitution, msqrt, msqrtInv) on symbolic 2x2 matrices with the input under a write watch",
               "thorough": "also dense Float32/Real32 and depth-3 views; algorithm entry points also with Real64 elements and (breadth-first, 24 paths) on 3x3"},
    "outside": "optimiser entry points (start vectors of rprop / bfgs / newton / gradientDescent / saga); distributions' constructors; for the iterative entry points the input is watched along the explored paths only (breadth-first, path and time caps stated in the evidence): a write that happens only after many iterations is not seen",
    "assumptions": ["map iteration order modelled as ascending key order"],
}

# ----------------------------------------------------------------------------- C20
def c20_jobs(tier):
    jobs = []
    quick = tier == "quick"
    kinds = [0, 1, 2, 3] if quick else list(range(8))
    for kind in kinds:
        for op in range(11):
            jobs.append({"func": "verif_C20_vecshape", "args": [kind, op], "tag": f"kind={kind} op={op}"})
        for op in range(10):
            jobs.append({"func": "verif_C20_matshape", "args": [kind, op], "tag": f"kind={kind} op={op}"})
        for vk in ([0, 1, 2, 4] if quick else [0, 1, 2, 3, 4, 6]):
            jobs.append({"func": "verif_C20_index", "args": [kind, vk], "tag": f"kind={kind} view={vk}"})
        for (r, c) in ((1, 1), (2, 3), (3, 2), (1, 3)):
            jobs.append({"func": "verif_C20_structural", "args": [kind, r, c], "max_steps": 2000000})
    jobs.append({"func": "verif_C20_orders", "args": []})
    # the rotation kernel of the SVD / QR convergence loops never yields NaN (bit-precise)
    # followed runs of the uncapped convergence loops on structured rank-deficient input
    for alg in ((0, 1) if quick else (0, 1, 2, 3)):
        for pattern in range(7):
            for n in ((2, 3) if quick else (2, 3, 4)):
                if pattern == 5 and n == 2 and alg == 0 and False:
                    continue
                jobs.append({"pkg": ZZ, "func": "verif_C20_terminates", "args": [alg, pattern, n], "follow": "c20", "terminates": "no-termination",
                             "max_paths": 1, "max_steps": 600000, "max_wall_ms": 60000, "selftest": False,
                             "tag": f"terminates alg={alg} pattern={pattern} n={n}"})
    for kind in (0, 1):
        jobs.append({"pkg": ZZ, "func": "verif_C20_givens", "args": [kind], "mode": "real", "tag": f"givens kind={kind}", "selftest": False})
    return jobs


PROPS["C20"] = {
    "overlay": [RT, VIEWS, SCALAR_COMMON, _scalar_real("Real64"), ("root/zz_verif_c03.go", "zz_verif_c03.go"), ("root/zz_verif_c20.go", "zz_verif_c20.go"),
                ("zzverif/c04.go", "zzverif/c04.go"), ("zzverif/c20num.go", "zzverif/c20num.go")],
    "patterns": [".", "./zzverif"],
    "mode": "fp", "intmode": "int",
    "jobs": c20_jobs,
    "reach": ["C20-vecshape", "C20-matshape", "C20-index", "C20-orders", "C20-structural", "C20-givens"],
    "replay_timeout_s": 20,
    "selftest_vars": ["r", "a", "b", "v", "m", "x", "y"],
    "bounds": {"quick": "loud failure: 11 vector and 10 matrix operation groups with every combination of receiver/operand dimensions in 0..2 (vectors) / 1..2 (matrices), dense and sparse Float64/Real64; element access with a symbolic index "
                        "on vectors (length 3) and on Slice/T views of a 3x3 parent (all slice bounds); SetVariable orders -1..4; dyadic operations on different N; structural loops (Tip, ReverseOrder, Sort, iteration) on shapes up to 3x2",
               "thorough": "also Float32/Real32 containers"},
    "outside": "termination of the floating-point convergence loops (QR algorithm, SVD, msqrt, line search, optimisers) in general is not decided; what is: (a) the runs of svd.Run and of the symmetric QR algorithm that inputs derived from a seed take on 7 structured patterns (zero matrix, zero first column, zero last row, rank one, nilpotent, diagonal with a zero, full; n = 2, 3; symbolic non-zero entries) end within 600000 executor steps, which covers the inputs sharing that run's branch decisions, not all inputs; (b) their rotation kernel givensRotation.Run performs no 0/0 division and no square root of a negative number for any input (real interpretation), so it cannot feed a NaN into the NaN-blind exit tests; NaN through overflow; invalid option values of the algorithm packages",
    "assumptions": ["a loop that does not terminate within the executor's step bound shows up as an undecided path (reported, never counted as held)"],
}

# ----------------------------------------------------------------------------- C04
ZZ = ROOT + "/zzverif"


def c04_jobs(tier):
    jobs = []
    quick = tier == "quick"

    def J(f, a, **kw):
        jobs.append(dict({"pkg": ZZ, "func": f, "args": a, "mode": "real", "intmode": "int"}, **kw))
    for kind in (0, 1):
        for n in ((1, 2) if quick else (1, 2, 3)):
            for tri in (0, 1):
                J("verif_C04_gaussJordan", [kind, n, tri])
            for variant in range(4):
                J("verif_C04_inverse", [kind, n, variant])
            J("verif_C04_backsub", [kind, n])
            J("verif_C04_determinant", [kind, n])
        if quick:
            J("verif_C04_gaussJordan", [kind, 3, 0], obl_cap_ms=30000)
            J("verif_C04_gaussJordan", [kind, 3, 1])
            J("verif_C04_determinant", [kind, 3])
            J("verif_C04_backsub", [kind, 3])
        for n in (3, 4):
            import math
            for perm in range(math.factorial(n)):
                if quick and n == 4 and kind == 1 and perm % 3 != 0:
                    continue
                J("verif_C04_pivots", [kind, n, perm])
        for perm in range(6):
            J("verif_C04_pivots_fp", [kind, 3, perm], mode="fp")
        for perm in range(24):
            J("verif_C04_pivots_fp", [kind, 4, perm], mode="fp")
        J("verif_C04_pd_reuse", [kind, 2, 0])
        J("verif_C04_pd_reuse", [kind, 2, 1])
        if not quick:
            J("verif_C04_pd_reuse", [kind, 3, 1])
    return jobs


PROPS["C04"] = {
    "overlay": [RT, ("zzverif/c04.go", "zzverif/c04.go")],
    "patterns": ["./zzverif"],
    "mode": "real", "intmode": "int",
    "jobs": c04_jobs,
    "reach": ["gj-returned", "inverse-returned", "backsub-returned", "det-returned", "pivots", "pivots-fp", "pd-reuse"],
    "replay_tol": 1e-6,
    "job_budget_ms": {"quick": 150000, "thorough": 600000},
    "selftest_vars": [],
    "bounds": {"quick": "Gauss-Jordan, matrixInverse (default / positive-definite / upper-triangular / caller-supplied in-situ buffers), back substitution, determinant on fully symbolic 1x1 and 2x2 (3x3: Gauss-Jordan, back substitution, determinant) "
                        "Float64 and Real64 matrices, every pivot path; every pivot order at n=3,4 on permuted diagonal matrices; real interpretation, fraction-lifted NRA",
               "thorough": "fully symbolic 3x3 for every routine and option"},
    "outside": "conditioning / backward error of the floating-point evaluation (the statement's tolerance clause); fully symbolic n>3; the structurally-singular clause is checked in fp mode only for n=2 (thorough)",
    "assumptions": ["floats read as reals, every division's denominator assumed non-zero (interior of the domain)",
                    "counterexamples are replayed natively in float64 with relative tolerance 1e-6"],
}

# ----------------------------------------------------------------------------- C05
def c05_jobs(tier):
    jobs = []
    quick = tier == "quick"

    def J(f, a, **kw):
        jobs.append(dict({"pkg": ZZ, "func": f, "args": a, "mode": "real", "intmode": "int"}, **kw))
    for kind in (0, 1):
        for n in ((2,) if quick else (2, 3)):
            for variant in (0, 1):
                for junk in (0, 1):
                    J("verif_C05_cholesky", [kind, n, variant, junk])
            J("verif_C05_gramschmidt", [kind, n])
        if quick:
            J("verif_C05_cholesky", [kind, 3, 0, 0])
            J("verif_C05_cholesky", [kind, 3, 1, 0])
        J("verif_C05_forcepd", [kind, 2])
        for w in range(3):
            J("verif_C05_forcepd_graded", [kind, w], mode="fp")
        J("verif_C05_givens", [kind])
    # one symmetric QR step from an arbitrary tridiagonal state (in-package harness)
    QR = ROOT + "/algorithm/qrAlgorithm"
    for (n, p, q, z) in ([(2, 0, 0, 0), (3, 1, 0, 0), (3, 0, 1, 0)] if quick else
                         [(2, 0, 0, 0), (2, 0, 0, 1), (3, 1, 0, 0), (3, 0, 1, 0), (3, 1, 0, 1), (3, 0, 0, 0), (4, 1, 1, 0), (4, 2, 0, 1), (4, 1, 0, 0)]):
        jobs.append({"pkg": QR, "func": "verif_C05_qrstep", "args": [0, n, p, q, z], "mode": "real", "intmode": "int",
                     "tag": f"qrstep n={n} p={p} q={q} z={z}"})
    return jobs


PROPS["C05"] = {
    "overlay": [RT, ("zzverif/c04.go", "zzverif/c04.go"), ("zzverif/c05.go", "zzverif/c05.go"),
                ("pkg/qr_c05.go", "algorithm/qrAlgorithm/zz_verif_c05.go")],
    "patterns": ["./zzverif", "./algorithm/qrAlgorithm"],
    "mode": "real", "intmode": "int",
    "jobs": c05_jobs,
    "reach": ["cholesky-returned", "forcepd-returned", "forcepd-graded", "gs-returned", "givens", "C05-qrstep"],
    "replay_tol": 1e-6,
    "job_budget_ms": {"quick": 150000, "thorough": 600000},
    "selftest_vars": [],
    "bounds": {"quick": "Cholesky and LDL on fully symbolic symmetric 2x2 and 3x3 Float64/Real64 matrices (with and without caller-supplied buffers holding other values), forced-PD LDL structure/positivity on symbolic 2x2 and "
                        "reconstruction on three concrete graded safely-PD matrices, Gram-Schmidt on symbolic 2x2, Givens rotation on a symbolic pair; one implicit symmetric QR step (unexported symmetricQRstep, in-package harness) on symbolic tridiagonal 2x2 and 3x3 states with the active block at the top, "
                        "at the bottom (p = 1) or whole; real interpretation (sqrt as constrained fresh variables)",
               "thorough": "Gram-Schmidt 3x3; QR step on 4x4 states and with an arbitrary accumulated Z"},
    "outside": "the iterative factorisations as whole runs (Householder reductions, Hessenberg reduction, Francis QR, eigensystem, SVD, matrix square roots): convergence-dependent post-conditions are not encoded; of the symmetric QR algorithm one implicit step from an arbitrary tridiagonal state is (similarity and orthogonality preserved, rows outside the active block untouched); conditioning/rounding",
    "assumptions": ["floats read as reals; denominators and radicands assumed in the domain", "counterexamples replayed natively with relative tolerance 1e-6"],
}

# ----------------------------------------------------------------------------- C06
def c06_jobs(tier):
    jobs = []
    quick = tier == "quick"

    def J(f, a, **kw):
        jobs.append(dict({"pkg": ZZ, "func": f, "args": a, "mode": "real", "intmode": "int"}, **kw))
    for routine in range(5):
        for n in ((2, 3) if routine != 3 else (2,)):
            J("verif_C06_fastgeneric", [routine, n], mode="fp")
    if not quick:
        J("verif_C06_fastgeneric", [3, 3], mode="fp")
    for routine in range(4):
        J("verif_C06_derivative", [routine, 2])
    J("verif_C06_derivative", [2, 3])
    if not quick:
        J("verif_C06_derivative", [1, 3])
        J("verif_C06_derivative", [3, 3])
    J("verif_C06_magicvalues", [2])
    import math
    for n in (3, 4):
        for perm in range(math.factorial(n)):
            J("verif_C06_pivots", [n, perm], mode="fp")
    return jobs


PROPS["C06"] = {
    "overlay": [RT, ("zzverif/c04.go", "zzverif/c04.go"), ("zzverif/c06.go", "zzverif/c06.go")],
    "patterns": ["./zzverif"],
    "mode": "real", "intmode": "int",
    "jobs": c06_jobs,
    "reach": ["fastgeneric", "derivative", "magicvalues", "C06-pivots"],
    "replay_tol": 1e-6,
    "job_budget_ms": {"quick": 150000, "thorough": 600000},
    "selftest_vars": [],
    "bounds": {"quick": "fast path = generic path for Cholesky (plain, LDL, forced PD) and Gauss-Jordan (+ upper triangular) on symbolic 2x2 and 3x3 inputs, fp interpretation (UF-first then bit-precise), every pivot / rejection path; "
                        "derivative identities with one symbolic parameter: inverse, Cholesky, MdotM on 2x2, determinant on 2x2 and 3x3 (real interpretation)",
               "thorough": "3x3 Cholesky / MdotM derivative identities, 3x3 Gauss-Jordan differential"},
    "outside": "QR algorithm, eigensystem, SVD, Gram-Schmidt, Hessenberg on magic matrices; order-2 derivatives; Jacobian/Hessian helpers",
    "assumptions": ["floats read as reals in the derivative identities; denominators and radicands assumed in the domain"],
}

# ----------------------------------------------------------------------------- C01 / C02 (scalar spec)
def _c01(rt):
    return ("tmpl/zz_verif_c01.go.tmpl", f"zz_verif_c01_{rt}.go", {"RTYPE": rt})


C01_NOPS = 28


def c01_jobs(tier):
    jobs = []
    cfgs = [2, 3] if tier == "quick" else [1, 2, 3, 4, 5]
    for rt in (["Real64"] if tier == "quick" else ["Real64", "Real32"]):
        for op in range(C01_NOPS):
            for cfg in cfgs:
                jobs.append({"func": f"verif_C01_scalar_{rt}", "args": [op, cfg], "mode": "real", "tag": f"{rt} op={op} cfg={cfg}"})
    for op in range(3):
        jobs.append({"func": "verif_C01_range", "args": [op], "mode": "fp", "intmode": "int", "precise_feas": True, "obl_cap_ms": 90000, "tag": f"derivative-range op={op}"})
    return jobs


PROPS["C01"] = {
    "overlay": [RT, SCALAR_COMMON, _scalar_real("Real64"), _scalar_real("Real32"), _c01("Real64"), _c01("Real32"), ("root/zz_verif_c01_range.go", "zz_verif_c01_range.go")],
    "mode": "real", "intmode": "int",
    "jobs": c01_jobs,
    "reach": ["scalar-spec", "derivative-range"],
    "replay_tol": 1e-6,
    "job_budget_ms": {"quick": 120000, "thorough": 400000},
    "selftest_vars": [],
    "bounds": {"quick": "one operation applied to operands with fully symbolic jets (inductive step over expression DAGs): 27 elementary operations of Real64, N=2, order 2, magic and constant operands; "
                        "gradient and Hessian slots equal the chain rule applied to the textbook partial derivatives written in the harness; Hessian symmetry; real interpretation with libm heads uninterpreted plus lemma instances",
               "thorough": "also Real32, N=1, mixed orders"},
    "outside": "rounding; operations built on special.* (LogErfc, Gamma, Lgamma, Mlgamma, GammaP, BesselI, LogBesselI): only their chain-rule combinators are exercised (C08/C09), their derivative formulas are not compared; vector/matrix reductions; the points x=0 of Abs and x=y of Min/Max",
    "assumptions": ["floats read as reals; each operation's argument assumed in the interior of its domain", "lemma instances: sin^2+cos^2=1, tan*cos=sin, cosh^2-sinh^2=1, tanh*cosh=sinh, exp>0, exp(-u)exp(u)=1, exp(u+v)=exp(u)exp(v) on the terms that occur"],
}


def c02_jobs(tier):
    jobs = []
    for rt in (["Real64"] if tier == "quick" else ["Real64", "Real32"]):
        for op in range(C01_NOPS):
            jobs.append({"func": f"verif_C02_scalar_{rt}", "args": [op, 0], "mode": "real", "tag": f"{rt} op={op}"})
            jobs.append({"func": f"verif_C02_scalar_{rt}", "args": [op, 2], "mode": "real", "tag": f"{rt} op={op} magic"})
    for recv in (0, 1):
        for ta in range(8):
            for tb in range(8):
                if tier == "quick" and (ta + 3 * tb + recv) % 3 != 0 and not (ta in (0, 1) and tb == 3):
                    continue
                jobs.append({"func": "verif_C02_mixed", "args": [recv, ta, tb], "mode": "fp", "intmode": "bv", "tag": f"recv={recv} a={ta} b={tb}"})
    for ty in range(3):
        jobs.append({"func": "verif_C02_int", "args": [ty], "mode": "fp", "intmode": "bv"})
    for fr in range(3):
        jobs.append({"func": "verif_C02_convert", "args": [fr], "mode": "fp", "intmode": "bv"})
    # vector reductions with caller-supplied temporaries holding arbitrary values
    for ty in (0, 1):
        for op in (0, 1):
            jobs.append({"func": "verif_C02_smoothmax", "args": [ty, op, 2], "mode": "real", "summarise_logadd": True, "tag": f"smoothmax ty={ty} op={op}"})
    # range consequences (bit-precise, overflow / underflow of exp through its documented range steps)
    for ty in ((0, 2) if tier == "quick" else (0, 1, 2, 3)):
        for op in range(6):
            jobs.append({"func": "verif_C02_range", "args": [ty, op], "mode": "fp", "intmode": "int", "precise_feas": True,
                         "obl_cap_ms": 60000, "tag": f"range ty={ty} op={op}"})
    return jobs


PROPS["C02"] = {
    "overlay": [RT, SCALAR_COMMON, _scalar_real("Real64"), _scalar_real("Real32"), _c01("Real64"), _c01("Real32"), ("root/zz_verif_c02_mixed.go", "zz_verif_c02_mixed.go")],
    "mode": "real", "intmode": "int",
    "jobs": c02_jobs,
    "reach": ["scalar-spec", "mixed", "int", "convert", "range", "smoothmax"],
    "replay_tol": 1e-6,
    "job_budget_ms": {"quick": 120000, "thorough": 400000},
    "selftest_vars": [],
    "bounds": {"quick": "mixed-type operand pairs (ConstInt, ConstInt8, ConstFloat32, ConstFloat64, Int, Float32, Real64, ConstInt64) for Min/Max/Add/Sub/Mul/Greater/Smaller on Real64 and Float64 receivers (fp, bit-vector ints); Int/Int8/Int32 ring operations, comparisons, sign, min, max, abs against Go's operators on fully symbolic bit-vector operands; ConvertScalar/ConvertConstScalar between the float types; value of 27 elementary Real64 operations equals the named function written in the harness over the same libm heads, on every branch of the piecewise definitions, with and without derivative tracking; real interpretation",
               "thorough": "also Real32"},
    "outside": "accuracy of libm and special.*; IEEE special values; conversions to and from the integer types",
    "assumptions": ["floats read as reals; libm heads uninterpreted (value equality means: same head applied to the same argument, or provable from the lemma instances)"],
}

# ----------------------------------------------------------------------------- C14
C14_NFAM = 15


def c14_jobs(tier):
    jobs = []

    def J(f, a, **kw):
        jobs.append(dict({"pkg": ZZ, "func": f, "args": a, "mode": "real", "intmode": "int"}, **kw))
    for fam in range(C14_NFAM):
        for kind in ((0,) if tier == "quick" else (0, 1)):
            J("verif_C14_formula", [fam, kind])
            J("verif_C14_support", [fam, kind], mode="fp")
            J("verif_C14_ctor", [fam, kind], mode="fp")
            J("verif_C14_boundary", [fam, kind, 0], mode="fp", precise_feas=True, obl_cap_ms=60000)
            J("verif_C14_boundary", [fam, kind, 1], mode="fp", precise_feas=True, obl_cap_ms=60000)
        J("verif_C14_roundtrip", [fam])
    # families offering Cdf / LogCdf on scalars in closed form: Exponential, Pareto, PowerLaw, GPareto, GEV
    # (Normal, Gamma, ChiSquared go through erfc / GammaP, whose derivative rules are not identities the solver can see)
    for fam in (3, 4, 8, 9, 11):
        J("verif_C14_cdf", [fam], obl_cap_ms=60000)
    return jobs


PROPS["C14"] = {
    "overlay": [RT, ("zzverif/c04.go", "zzverif/c04.go"), ("zzverif/c14.go", "zzverif/c14.go")],
    "patterns": ["./zzverif"],
    "mode": "real", "intmode": "int",
    "jobs": c14_jobs,
    "reach": ["formula", "support", "ctor", "roundtrip", "cdf", "boundary"],
    "replay_tol": 1e-6,
    "job_budget_ms": {"quick": 120000, "thorough": 600000},
    "selftest_vars": [],
    "bounds": {"quick": "15 scalar family instances (Normal, Laplace, Cauchy, Exponential, Pareto, Gamma, Poisson, Geometric, PowerLaw, GPareto xi>0, ChiSquared, GEV xi!=0, Binomial n=3, Binomial after SetN, Beta) with symbolic valid parameters: log-density = textbook formula on the support (real interpretation, "
                        "log/lgamma heads by name, exp-homomorphism), exactly -Inf strictly outside the support (fp), never NaN on the boundary of the support (bit-precise; parameters symbolic in [2^-10, 2^10] and, in a second job, from the grid {1/2, 1, 2} with only x symbolic), constructors reject parameters strictly outside the valid region (fp), Clone / SetParameters(GetParameters()) / Real64-held parameters give the same log-density (real interpretation); for the five families with a closed-form Cdf the derivative that automatic differentiation of Cdf yields equals exp(LogPdf), and Cdf = exp(LogCdf)",
               "thorough": "also Real64-held parameters for the formula, support and constructor obligations"},
    "outside": "normalisation (integration), monotonicity and limits of the CDFs, Cdf' = Pdf for the families whose Cdf goes through erfc / GammaP (Normal, Gamma, ChiSquared), vector and matrix families, wrappers (log-transform, translation, mixtures), the remaining scalar families (Binomial, NegativeBinomial, Categorical, GEV, GeneralizedGamma, Delta), behaviour on the boundary of support / parameter region",
    "assumptions": ["floats read as reals for the formula obligations; log, lgamma, log1p uninterpreted by name"],
}

# ----------------------------------------------------------------------------- C15
def c15_jobs(tier):
    jobs = []
    quick = tier == "quick"

    def J(f, a, **kw):
        jobs.append(dict({"pkg": ZZ, "func": f, "args": a, "mode": "real", "intmode": "int", "summarise_logadd": True}, **kw))
    sizes = [(1, 1), (1, 3), (2, 1), (2, 2), (2, 3)] if quick else [(1, 1), (1, 3), (2, 1), (2, 2), (2, 3), (2, 4), (3, 2), (3, 3)]
    for (m, n) in sizes:
        zms = [0] if m == 1 else ([0, 0b0010, 0b0110] if m == 2 else [0, 0b000100010])
        for zm in zms:
            for smap in ((0,) if m == 1 else (0, 1)):
                for final in ((0,) if m == 1 else (0, 1)):
                    J("verif_C15_logpdf", [m, n, zm, smap, final], obl_cap_ms=60000)
            J("verif_C15_marginals", [m, n, zm], obl_cap_ms=40000)
            for final in ((0,) if m == 1 else (0, 1)):
                J("verif_C15_viterbi", [m, n, zm, final])
    # posterior of state-set sequences (m = 2): digits per position, 1 = {0}, 2 = {1}, 3 = {0,1}
    def enc4(ds):
        v = 0
        for d in reversed(ds):
            v = v * 4 + d
        return v
    for ds in ([[3, 3], [1, 2], [2, 1, 1, 2], [3, 2, 1, 3], [1, 3, 2, 3], [2, 3, 2]] if quick else
               [[3, 3], [1, 2], [2, 1, 1, 2], [3, 2, 1, 3], [1, 3, 2, 3], [2, 3, 2], [2, 1, 3, 1, 2], [1, 1, 2, 2], [3, 1, 3, 1]]):
        J("verif_C15_posterior", [2, len(ds), enc4(ds), 1 if len(ds) >= 4 else 0], obl_cap_ms=60000, tag=f"posterior sets={ds}")
    # float64 forward-backward of Baum-Welch (reused buffers) = generic recursion (in-package harness)
    GEN = ROOT + "/statistics/generic"
    for (m, n, N) in ([(2, 1, 2), (2, 2, 3), (2, 3, 3), (1, 1, 1)] if quick else [(2, 1, 2), (2, 1, 3), (2, 2, 3), (2, 3, 3), (2, 4, 4), (3, 1, 2), (3, 3, 3), (1, 1, 1)]):
        for finals in ((0,) if m == 1 else (0, 1)):
            jobs.append({"pkg": GEN, "func": "verif_C15_float64fb", "args": [m, n, N, finals], "mode": "real", "intmode": "int",
                         "summarise_logadd": True, "tag": f"float64fb m={m} n={n} N={N} finals={finals}"})
    return jobs


PROPS["C15"] = {
    "overlay": [RT, ("zzverif/c04.go", "zzverif/c04.go"), ("zzverif/c15.go", "zzverif/c15.go"),
                ("pkg/generic_c15.go", "statistics/generic/zz_verif_c15.go")],
    "patterns": ["./zzverif", "./statistics/generic"],
    "mode": "real", "intmode": "int",
    "jobs": c15_jobs,
    "reach": ["logpdf", "marginals", "viterbi", "C15-float64fb", "posterior"],
    "replay_tol": 1e-6,
    "job_budget_ms": {"quick": 120000, "thorough": 400000},
    "selftest_vars": [],
    "bounds": {"quick": "generic.Hmm with m<=2 states and sequences of length n<=3: symbolic log initial / transition / emission values, zero-probability transitions as -Inf patterns, shared emission maps, final-state restriction; "
                        "LogPdf = log of the sum over all m^n hidden paths, posterior marginal x likelihood = mass of the paths through the state, marginals sum to one, the Viterbi path has maximal joint probability; the posterior of a sequence of state sets (m = 2, n <= 4, 6 set patterns) times the likelihood = mass of the paths inside the sets; the float64 forward-backward tables of Baum-Welch (hmm_optimized, in-package harness) equal the generic ones for sequences of length 1..3 in buffers "
                        "that hold arbitrary stale values of a longer record; real interpretation, exp-homomorphism, LogAdd summarised",
               "thorough": "m<=3, n<=4"},
    "outside": "Baum-Welch beyond its forward-backward tables, mixtures, hierarchical / constrained HMMs, data sets of several sequences, larger models",
    "assumptions": ["LogAdd(a,b) is replaced by its summary log(exp a + exp b) (the C02 check discharges that summary against the method bodies)",
                    "floats read as reals; exp/log handled by the exp-homomorphism over atoms E(x)"],
}

# ----------------------------------------------------------------------------- C16 / C17
def c16_jobs(tier):
    jobs = []

    def J(f, a, **kw):
        jobs.append(dict({"pkg": ZZ, "func": f, "args": a, "mode": "real", "intmode": "int", "summarise_logadd": True}, **kw))
    for family in range(3):
        for n in ((1, 2, 3) if tier == "quick" else (1, 2, 3, 4)):
            for weighted in (0, 1):
                J("verif_C16_score", [family, n, weighted])
        for n in (2, 3):
            if family < 2:
                J("verif_C16_bounds", [family, n])
    # bit-precise: sigma >= SigmaMin and not NaN, also when the empirical variance rounds below zero
    for (n, eq) in ((3, 1), (2, 0), (3, 0)):
        jobs.append({"pkg": ZZ, "func": "verif_C16_sigma_fp", "args": [n, eq], "mode": "fp", "intmode": "int", "obl_cap_ms": 120000,
                     "tag": f"sigma-fp n={n} equal={eq}"})
    # mixture EM: one E-step + weight M-step (in-package harness), sequential pool here (C17 runs it with k threads)
    GEN = ROOT + "/statistics/generic"
    for (m, n, cmode) in ([(2, 2, 0), (2, 2, 1), (2, 3, 1), (2, 1, 2)] if tier == "quick" else [(2, 2, 0), (2, 2, 1), (2, 3, 1), (2, 1, 2), (3, 2, 1), (2, 4, 1), (3, 3, 0)]):
        jobs.append({"pkg": GEN, "func": "verif_C16_emstep", "args": [m, n, 1, cmode, 0], "mode": "real", "intmode": "int", "summarise_logadd": True,
                     "tag": f"emstep m={m} n={n} k=1 counts={cmode}"})
    jobs.append({"pkg": GEN, "func": "verif_C16_emstep", "args": [2, 2, 1, 1, 1], "mode": "real", "intmode": "int", "summarise_logadd": True,
                 "tag": "emstep m=2 n=2 k=1 counts=1 stale accumulators"})
    return jobs


PROPS["C16"] = {
    "overlay": [RT, ("zzverif/c04.go", "zzverif/c04.go"), ("zzverif/c16.go", "zzverif/c16.go"), ("pkg/generic_em.go", "statistics/generic/zz_verif_em.go")],
    "patterns": ["./zzverif", "./statistics/generic"],
    "mode": "real", "intmode": "int",
    "jobs": c16_jobs,
    "reach": ["score", "bounds", "C16-emstep", "sigma-fp"],
    "replay_tol": 1e-6,
    "job_budget_ms": {"quick": 120000, "thorough": 400000},
    "selftest_vars": [],
    "bounds": {"quick": "closed-form scalar estimators Normal, Exponential, Poisson on 1..3 symbolic observations with and without symbolic positive weights: the returned parameters satisfy the score equations of the weighted log-likelihood; "
                        "configured bounds (SigmaMin, LambdaMax) are respected and only active when the unconstrained estimate lies beyond them; single-thread pool; real interpretation, exp-homomorphism, LogAdd summarised",
               "thorough": "up to 4 observations"},
    "outside": "EM monotonicity (needs Jensen's inequality, not an identity), the likelihood reported to hooks, numeric estimators, Geometric / Categorical / NegativeBinomial / vector and matrix estimators, batch variants",
    "assumptions": ["floats read as reals; weights are exp of the log-weights (exp-homomorphism); for these concave families the score equations are equivalent to 'no admissible perturbation increases the likelihood'"],
}


def c17_jobs(tier):
    jobs = []

    def J(f, a, **kw):
        jobs.append(dict({"pkg": ZZ, "func": f, "args": a, "mode": "real", "intmode": "int", "summarise_logadd": True}, **kw))
    for family in range(3):
        for (n, k) in ([(2, 2), (3, 2), (3, 3), (2, 3)] if tier == "quick" else [(2, 2), (3, 2), (3, 3), (2, 3), (4, 2), (4, 3), (1, 2)]):
            for weighted in (0, 1):
                J("verif_C17_pool", [family, n, k, weighted])
    # mixture EM step with k threads, every assignment of observations to threads
    GEN = ROOT + "/statistics/generic"
    # (k >= n + 2 leaves the pool's first thread without a job on every native schedule, which is what lets
    # a counterexample that needs an idle first thread reproduce in the native replay)
    for (m, n, k, cmode) in ([(2, 2, 2, 1), (2, 3, 2, 0), (2, 2, 4, 1), (2, 1, 3, 0), (2, 2, 8, 1)] if tier == "quick" else [(2, 2, 2, 1), (2, 3, 2, 0), (2, 2, 3, 1), (2, 2, 4, 1), (2, 1, 3, 0), (2, 3, 3, 1), (2, 4, 2, 1), (3, 2, 2, 0)]):
        for stale in (0, 1):
            jobs.append({"pkg": GEN, "func": "verif_C16_emstep", "args": [m, n, k, cmode, stale], "mode": "real", "intmode": "int", "summarise_logadd": True,
                         "tag": f"emstep m={m} n={n} k={k} counts={cmode} stale={stale}"})
    return jobs


PROPS["C17"] = {
    "overlay": [RT, ("zzverif/c04.go", "zzverif/c04.go"), ("zzverif/c16.go", "zzverif/c16.go"), ("pkg/generic_em.go", "statistics/generic/zz_verif_em.go")],
    "patterns": ["./zzverif", "./statistics/generic"],
    "mode": "real", "intmode": "int",
    "jobs": c17_jobs,
    "reach": ["pool"],
    "replay_tol": 1e-6,
    "job_budget_ms": {"quick": 120000, "thorough": 400000},
    "selftest_vars": [],
    "replay_repeat": 300,
    # natively the real pool runs and float sums are grouped by the scheduler's
    # assignment, the executor groups them by symbolic thread ids: no bit-exact
    # trace comparison is possible (native replays compare within replay_tol)
    "selftest": False,
    "bounds": {"quick": "Normal, Exponential and Poisson estimators with pools of k = 2, 3 threads (also k > number of jobs) on 2..3 symbolic observations: for every assignment of jobs to threads (symbolic thread ids, one path per assignment) "
                        "the estimate equals the sequential one as a real identity (sums are associative-commutative there) and no memory cell written by a job is accessed by a job of another thread",
               "thorough": "4 observations"},
    "outside": "the Go scheduler and the internals of pbenner/threadpool (goroutines, channels, sync): replaced by the pool's contract; interleavings below job granularity; deadlock freedom; EM / Baum-Welch steps, logistic regression, SAGA",
    "assumptions": ["thread-pool contract stub: AddJob runs each job exactly once with a ThreadPool whose id is an arbitrary value in [0,k); jobs with equal id never overlap and keep submission order; Wait returns after all jobs of the group",
                    "sync.Mutex / RWMutex / WaitGroup operations are no-ops under that contract"],
}

# ----------------------------------------------------------------------------- C07
def c07_jobs(tier):
    jobs = []
    quick = tier == "quick"

    def J(f, a, **kw):
        jobs.append(dict({"pkg": ZZ, "func": f, "args": a, "mode": "real", "intmode": "int"}, **kw))
    steps = 60000 if quick else 150000
    J("verif_C07_gradientDescent", [0], max_steps=steps, max_paths=40)
    J("verif_C07_gradientDescent", [1], max_steps=steps, max_paths=40)
    for k in ((2, 3) if quick else (2, 3, 4)):
        J("verif_C07_rprop", [k], max_paths=400)
    for k in ((2, 3) if quick else (2, 3, 4)):
        J("verif_C07_lineSearch", [k], max_paths=600, bfs=True)
    # Newton root finding, bit-precise (the vanished-step exit needs floating point)
    for (k, con, jm) in (((2, 0, 1), (2, 1, 1), (2, 0, 0)) if quick else ((2, 0, 1), (2, 1, 1), (2, 0, 0), (2, 1, 0), (3, 0, 1), (3, 1, 1), (3, 0, 0))):
        J("verif_C07_newtonRoot", [k, con, jm], mode="fp", max_paths=200, bfs=True, max_wall_ms=100000 if quick else 300000, obl_cap_ms=30000, precise_feas=(jm == 1))
    return jobs


PROPS["C07"] = {
    "overlay": [RT, ("zzverif/c04.go", "zzverif/c04.go"), ("zzverif/c07.go", "zzverif/c07.go"), ("zzverif/c07newton.go", "zzverif/c07newton.go")],
    "patterns": ["./zzverif"],
    "mode": "real", "intmode": "int",
    "jobs": c07_jobs,
    "reach": ["gd-returned", "rprop-returned", "linesearch-returned", "newton-returned"],
    "replay_tol": 1e-9,
    "job_budget_ms": {"quick": 150000, "thorough": 400000},
    "selftest_vars": [],
    "bounds": {"quick": "gradient descent (about 3 iterations by the step bound), Rprop (iteration caps 2, 3) and the strong-Wolfe line search (evaluation caps 2, 3) in dimension 1 with an uninterpreted objective (value and derivative are uninterpreted functions of the point), "
                        "symbolic start, step and epsilon: on every path that returns before the cap the stopping predicate holds when re-evaluated at the returned point, hooks receive value and gradient of the point passed with them, the start vector is unchanged; "
                        "Newton root finding (RunRoot, iteration cap 2, with and without a caller-supplied constraint; residual an uninterpreted function, Jacobian uninterpreted or the constant 1) with bit-precise floats: "
                        "a return without error before the cap has a residual norm below epsilon and, under a constraint, is feasible",
               "thorough": "caps 4; Newton cap 3"},
    "outside": "convergence; the 'within tolerance of the minimiser of a convex quadratic' clause; BFGS, Newton crit / min and the Hessian modifications, Adam, SAGA, Blahut-Arimoto; dimension above 1; paths longer than the stated caps (breadth-first exploration with path and time caps for Newton: what is cut is reported)",
    "assumptions": ["the objective is a function: equal points give equal value and derivative (uninterpreted functions)", "gradient descent, Rprop, line search: floats read as reals; Newton: bit-precise floats, math.Pow(x,2) = x*x in the normal range (Go's algorithm rounds once; compared on 2*10^7 random arguments)"],
}
