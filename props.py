"""Per-property check specifications: overlay files, jobs per tier, bounds."""

ROOT = "github.com/pbenner/autodiff"
RT = ("rt/zz_verif_rt.go", "zz_verif_rt.go")

PROPS = {}

# ----------------------------------------------------------------------------- C19
_AVL_SIZES = None


def _avl_shapes(h):
    if h == 0:
        return [None]
    if h == 1:
        return [(None, None)]
    a, b = _avl_shapes(h - 1), _avl_shapes(h - 2)
    out = [(x, y) for x in a for y in a]
    for x in a:
        for y in b:
            out.append((x, y))
            out.append((y, x))
    return out


def _size(s):
    return 0 if s is None else 1 + _size(s[0]) + _size(s[1])


def _avl_sizes():
    global _AVL_SIZES
    if _AVL_SIZES is None:
        _AVL_SIZES = [_size(s) for h in range(5) for s in _avl_shapes(h)]
    return _AVL_SIZES


def c19_jobs(tier):
    sizes = _avl_sizes()
    nshape = 20 if tier == "quick" else len(sizes)
    jobs = []
    for sh in range(nshape):
        n = sizes[sh]
        for op in (0, 1):
            jobs.append({"func": "verif_C19_step", "args": [sh, op], "tag": f"shape={sh} n={n} op={'ins' if op == 0 else 'del'}"})
            if sh < 20 or sh % 7 == 0:
                jobs.append({"func": "verif_C19_probe", "args": [sh, op]})
                jobs.append({"func": "verif_C19_clone", "args": [sh, op]})
            for frm in (0, 1):
                js = range(n + 1) if frm == 0 else [0, 1]
                if sh >= 20:
                    js = [j for j in js if j in (0, 1, n // 2, n - 1)]
                for j in js:
                    jobs.append({"func": "verif_C19_iter", "args": [sh, op, j, frm]})
        jobs.append({"func": "verif_C19_reach", "args": [sh]})
    return jobs


PROPS["C19"] = {
    "overlay": [RT, ("root/zz_verif_c19.go", "zz_verif_c19.go")],
    "patterns": ["."],
    "mode": "fp", "intmode": "int",
    "jobs": c19_jobs,
    "reach": ["after-op", "after-probe", "mutated-under-iterator", "built"],
    "selftest_vars": ["key", "k", "q", "lb"],
    "selftest_kinds": {"key": (-50, 50), "k": (-50, 50), "q": (-50, 50), "lb": (-50, 50)},
    "bounds": {"quick": "every AVL shape of height <= 3 (20 shapes, <= 7 nodes), keys symbolic mathematical integers, one Insert/Delete, "
                        "iterator advanced 0..n steps before the mutation",
               "thorough": "every AVL shape of height <= 4 (335 shapes, <= 15 nodes)"},
    "outside": "trees taller than the bound except through the induction argument (every AVL shape is a reachable pre-state); "
               "keys at the int64 boundary (cursor value + 1 overflows); more than one mutation between two Next() calls",
    "assumptions": ["ints are encoded as mathematical integers: keys range over all of Z, which coincides with int64 behaviour "
                    "while no key equals MaxInt64 (the iterator computes value+1)",
                    "pre-states are AVL literals; verif_C19_reach shows each literal is what public Insert calls build"],
}
