#!/usr/bin/env python3
"""Regenerates MANIFEST.json from props.PROPS and the NOT_APPLICABLE table."""
import json, os, sys
sys.path.insert(0, os.path.dirname(os.path.abspath(__file__)))
import props

MODE_TEXT = {
 "fp": "floats bit-precise (cvc5 FP theory, UF abstraction first), ints as mathematical integers unless stated",
 "real": "floats read as reals (z3 4.8.12 / z3 5.1.0 raced, fraction lifting, exp-homomorphism), so the claim is about the formulas the code evaluates on every branch, not about rounding",
}

def level(pid, spec):
    b = spec.get("bounds", {})
    text = ("bounded symbolic model checking of the real code (symbolic execution of its go/ssa form, every branch feasibility and "
            "proof obligation decided by an SMT solver, counterexamples replayed against the native build). Quick tier: "
            + b.get("quick", "") + ". Thorough tier: " + b.get("thorough", "same with larger bounds") + ".")
    note = ("trusted: symgo's SSA semantics (self-tested bit for bit against the native build on derived concrete inputs), z3/cvc5; "
            + MODE_TEXT.get(spec.get("mode", "fp"), "") + ". Assumptions: " + "; ".join(spec.get("assumptions", []) or ["none beyond the bounds"])
            + ". Outside the claim: " + (spec.get("outside") or "everything beyond the stated bounds") + ".")
    return text, note

TECH = "symbolic execution of go/ssa (own executor symgo) + SMT (z3 4.8.12 / z3 5.1.0 / cvc5 1.0), counterexamples replayed natively"

NOT_APPLICABLE = {
 "C13": "accuracy of series / continued fractions against transcendental references over the whole float64 domain: SMT has no transcendental semantics and bit-precise symbolic execution of 100-term FP loops is out of reach (DESIGN section 7)",
}

def main():
    checks = []
    for pid in sorted(props.PROPS):
        text, note = level(pid, props.PROPS[pid])
        checks.append({
            "property_id": pid,
            "quick_cmd": f"./check {pid} --tier quick",
            "thorough_cmd": f"./check {pid} --tier thorough",
            "evidence_file": f"/verif/evidence/{pid}.json",
            "replay_cmd_template": f"./check {pid} --replay {{path}}",
            "engine": "symgo",
            "level_claimed": {"category": "model_checking", "text": text, "design_ref": f"DESIGN.md 6/{pid}"},
            "level_note": note,
            "technique": TECH,
        })
    allp = [json.loads(l)["id"] for l in open(os.path.join(os.path.dirname(os.path.abspath(__file__)), "properties.jsonl"))]
    na = []
    for pid in allp:
        if pid in props.PROPS:
            continue
        na.append({"property_id": pid, "reason": NOT_APPLICABLE.get(pid, "check not built yet in this session: the encoding of this property's code has not been completed; no claim is made")})
    m = {
        "version": 1,
        "setup_cmd": "cd /verif/engine && GOFLAGS=-mod=mod GOPROXY=off GOSUMDB=off GOTOOLCHAIN=local go build -o ../bin/symgo ./cmd/symgo",
        "hooks": {"guard": "verif", "enable": "none needed: harnesses are injected with go/packages overlays and go test -overlay; nothing is compiled into /repo",
                  "baseline_off_cmd": "cd /repo && go test -vet=off -count=1 ./...", "source_commits": [], "add_only": True},
        "engines": [{"name": "symgo", "path": "/verif/engine", "serves_properties": sorted(props.PROPS),
                     "kind_free_text": "path-forking symbolic executor over go/ssa of /repo's current source; obligations and branch feasibility decided by z3/cvc5; native replay of every counterexample"}],
        "checks": checks,
        "not_applicable": na,
        "notes": "see DESIGN.md section 11 (as built); known_findings.json lists the genuine defects of the unchanged tree that remain (known: re-confirmed natively on every run, printed as KNOWN-FINDING) and those repaired by fix: commits in /repo (fixed: suppress nothing)",
    }
    json.dump(m, open(os.path.join(os.path.dirname(os.path.abspath(__file__)), "MANIFEST.json"), "w"), indent=1)

if __name__ == "__main__":
    main()
