#!/usr/bin/env python3
"""Regenerates MANIFEST.json from props.PROPS and the NOT_APPLICABLE table."""
import json, os, sys
sys.path.insert(0, os.path.dirname(os.path.abspath(__file__)))
import props

LEVEL = {
 "C19": ("bounded symbolic model checking of the real AVL code: one Insert/Delete (and live iteration around it, incl. two mutations between Next calls) from every AVL shape up to the height bound with symbolic keys; every branch feasibility and obligation decided by z3",
         "trusted: symgo's SSA semantics (self-tested bit for bit against the native build), z3; keys as mathematical integers (int64 boundary excluded)"),
 "C10": ("bounded symbolic model checking of the real matrix code: header arithmetic (index/Slice/T) with fully symbolic shapes as inductive steps decided in nonlinear integer arithmetic (z3 5.1), and 18 operation groups on Slice/T view compositions of 3x3 parents with symbolic elements against the definitional model, obligations decided by cvc5/z3; confirmed genuine defects are listed as known findings",
         "trusted: symgo, z3/cvc5, extents <= 2^20 for the Int encoding; parents up to 3x3 (3x4 thorough), compositions of depth <= 2 (3 thorough)"),
 "C09": ("bounded symbolic differential check of every Xyz/XYZ scalar pair of Real64/Real32 on fully symbolic jets (any float), all alias patterns; equality of every result slot decided by cvc5 (UF-first, then bit-precise)",
         "trusted: symgo, cvc5; libm/special functions uninterpreted by name; containers not yet covered by this check"),
 "C08": ("bounded symbolic differential check: aliased receiver vs fresh receiver for every Real64/Real32 scalar operation (generic and CONCRETE), all alias patterns and operand structures, fully symbolic jets; decided by cvc5 (UF-first, then bit-precise)",
         "trusted: symgo, cvc5; libm/special functions uninterpreted by name; containers not yet covered by this check"),
}
TECH = "symbolic execution of go/ssa (own executor symgo) + SMT (z3 4.8.12 / z3 5.1.0 / cvc5 1.0), counterexamples replayed natively"

NOT_APPLICABLE = {
 "C13": "accuracy of series / continued fractions against transcendental references over the whole float64 domain: SMT has no transcendental semantics and bit-precise symbolic execution of 100-term FP loops is out of reach (DESIGN section 7)",
}

def main():
    checks = []
    for pid in sorted(props.PROPS):
        text, note = LEVEL.get(pid, ("bounded symbolic model checking of the real code, obligations decided by SMT solvers", "trusted: symgo, z3/cvc5"))
        checks.append({
            "property_id": pid,
            "quick_cmd": f"./check {pid} --tier quick",
            "thorough_cmd": f"./check {pid} --tier thorough",
            "evidence_file": f"/verif/evidence/{pid}.json",
            "replay_cmd_template": f"./check {pid} --replay {{path}}",
            "engine": "symgo",
            "level_claimed": {"category": "model_checking", "text": text, "design_ref": f"DESIGN.md 6/{pid}"},
            "level_note": note,
            "technique": TECH,
        })
    allp = [json.loads(l)["id"] for l in open(os.path.join(os.path.dirname(os.path.abspath(__file__)), "properties.jsonl"))]
    na = []
    for pid in allp:
        if pid in props.PROPS:
            continue
        na.append({"property_id": pid, "reason": NOT_APPLICABLE.get(pid, "check not built yet in this session: the encoding of this property's code has not been completed; no claim is made")})
    m = {
        "version": 1,
        "setup_cmd": "cd /verif/engine && GOFLAGS=-mod=mod GOPROXY=off GOSUMDB=off GOTOOLCHAIN=local go build -o ../bin/symgo ./cmd/symgo",
        "hooks": {"guard": "verif", "enable": "none needed: harnesses are injected with go/packages overlays and go test -overlay; nothing is compiled into /repo",
                  "baseline_off_cmd": "cd /repo && go test -vet=off -count=1 ./...", "source_commits": [], "add_only": True},
        "engines": [{"name": "symgo", "path": "/verif/engine", "serves_properties": sorted(props.PROPS),
                     "kind_free_text": "path-forking symbolic executor over go/ssa of /repo's current source; obligations and branch feasibility decided by z3/cvc5; native replay of every counterexample"}],
        "checks": checks,
        "not_applicable": na,
        "notes": "see DESIGN.md; known_findings.json lists genuine defects of the unchanged tree that the checks re-confirm on every run",
    }
    json.dump(m, open(os.path.join(os.path.dirname(os.path.abspath(__file__)), "MANIFEST.json"), "w"), indent=1)

if __name__ == "__main__":
    main()
