#!/bin/bash
# seedtest.sh SEED PROP [check args...]: run a check against a scratch worktree of /repo
# with seeded/SEED/patch.diff applied; /repo itself, /verif/evidence and /verif/replay
# are not touched (VERIF_REPO / VERIF_OUT).
SEED=$1; PROP=$2; shift 2
W=/var/tmp/seedwt_$SEED; O=/var/tmp/seedout_$SEED
git -C /repo worktree remove --force $W 2>/dev/null; rm -rf $W $O
git -C /repo worktree add -q --detach $W HEAD || exit 2
git -C $W apply /verif/seeded/$SEED/patch.diff || { echo "seed=$SEED apply failed"; git -C /repo worktree remove --force $W; exit 2; }
mkdir -p $O
(cd /verif && VERIF_REPO=$W VERIF_OUT=$O ./check $PROP "$@" > $O/log.txt 2>&1); rc=$?
echo "seed=$SEED prop=$PROP rc=$rc violations=$(grep -c '^VIOLATION' $O/log.txt)"
grep "^VIOLATION" $O/log.txt | head -5
cp $O/log.txt /var/tmp/seedtest_$SEED.log
git -C /repo worktree remove --force $W; rm -rf $O
exit 0
