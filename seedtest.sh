#!/bin/bash
# seedtest.sh SEED PROP [check args...]: apply seeded/SEED/patch.diff to /repo, run the check, undo.
SEED=$1; PROP=$2; shift 2
cd /verif
git -C /repo diff --quiet || { echo "/repo not clean"; exit 2; }
git -C /repo apply /verif/seeded/$SEED/patch.diff || { echo "apply failed"; exit 2; }
./check $PROP "$@" > /tmp/seedtest_$SEED.log 2>&1; rc=$?
git -C /repo checkout -- .
echo "seed=$SEED prop=$PROP rc=$rc violations=$(grep -c '^VIOLATION' /tmp/seedtest_$SEED.log)"
grep "^VIOLATION" /tmp/seedtest_$SEED.log | head -5
exit 0
