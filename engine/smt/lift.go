package smt

import (
	"fmt"
	"sort"
	"strings"

	"verif/engine/term"
)

// buildLifted prints real-mode queries without division: every float term is
// a pair (numerator, denominator) of defined functions.

type frac struct{ n, d string }

func buildLifted(mode Mode, asserts []*term.Term) *Script {
	p := &printer{mode: mode, names: map[int]string{}, ufs: map[string]bool{}}
	sc := &Script{Mode: mode, GetNames: map[string]string{}}
	fr := map[int]frac{}
	var body, vdecl, side strings.Builder
	one := "1.0"
	mul := func(a, b string) string {
		if a == one {
			return b
		}
		if b == one {
			return a
		}
		return "(* " + a + " " + b + ")"
	}
	nz := map[string]bool{}
	needNZ := func(d string) {
		if d != one && !nz[d] {
			nz[d] = true
			fmt.Fprintf(&side, "(assert (not (= %s 0.0)))\n", d)
		}
	}
	def := func(t *term.Term, n, d string) {
		nn := fmt.Sprintf("t!%d!n", t.ID)
		fmt.Fprintf(&body, "(define-fun %s () Real %s)\n", nn, n)
		dd := one
		if d != one {
			if !strings.HasPrefix(d, "(") {
				dd = d // an existing name: keep it so that equal denominators are recognised
			} else {
				dd = fmt.Sprintf("t!%d!d", t.ID)
				fmt.Fprintf(&body, "(define-fun %s () Real %s)\n", dd, d)
			}
		}
		fr[t.ID] = frac{nn, dd}
	}
	val := func(f frac) string { // plain value where unavoidable (UF arguments)
		if f.d == one {
			return f.n
		}
		needNZ(f.d)
		return "(/ " + f.n + " " + f.d + ")"
	}
	sqrtN := 0
	for _, t := range term.Topo(asserts...) {
		isF := t.Sort.K == term.KFloat
		af := func(i int) frac { return fr[t.Args[i].ID] }
		switch {
		case t.Op == "var":
			n := sym(t.Name)
			sc.Vars = append(sc.Vars, t)
			fmt.Fprintf(&vdecl, "(declare-const %s %s)\n", n, p.sortName(t.Sort))
			sc.GetNames[t.Name] = n
			if isF {
				fr[t.ID] = frac{n, one}
			} else {
				p.names[t.ID] = n
			}
		case t.Op == "const":
			e := p.expr(t)
			if isF {
				fr[t.ID] = frac{e, one}
			} else {
				p.names[t.ID] = e
			}
		case isF:
			switch t.Op {
			case "fadd", "fsub":
				a, b := af(0), af(1)
				op := "+"
				if t.Op == "fsub" {
					op = "-"
				}
				if a.d == b.d {
					def(t, "("+op+" "+a.n+" "+b.n+")", a.d)
				} else {
					def(t, "("+op+" "+mul(a.n, b.d)+" "+mul(b.n, a.d)+")", mul(a.d, b.d))
				}
			case "fmul":
				a, b := af(0), af(1)
				def(t, mul(a.n, b.n), mul(a.d, b.d))
			case "fdiv":
				a, b := af(0), af(1)
				needNZ(b.n)
				def(t, mul(a.n, b.d), mul(a.d, b.n))
			case "fneg":
				a := af(0)
				def(t, "(- "+a.n+")", a.d)
			case "fabs":
				a := af(0)
				d := a.d
				if d != one {
					d = "(ite (>= " + a.d + " 0.0) " + a.d + " (- " + a.d + "))"
				}
				def(t, "(ite (>= "+a.n+" 0.0) "+a.n+" (- "+a.n+"))", d)
			case "fsqrt":
				a := af(0)
				sqrtN++
				sv := fmt.Sprintf("sqrt!%d", t.ID)
				fmt.Fprintf(&vdecl, "(declare-const %s Real)\n", sv)
				// s >= 0 and s*s*d = n (for a non-negative radicand)
				fmt.Fprintf(&side, "(assert (>= %s 0.0))\n(assert (= %s %s))\n", sv, mul(mul(sv, sv), a.d), a.n)
				fr[t.ID] = frac{sv, one}
			case "ite":
				c := p.names[t.Args[0].ID]
				a, b := fr[t.Args[1].ID], fr[t.Args[2].ID]
				if a.d == b.d {
					def(t, "(ite "+c+" "+a.n+" "+b.n+")", a.d)
				} else {
					def(t, "(ite "+c+" "+a.n+" "+b.n+")", "(ite "+c+" "+a.d+" "+b.d+")")
				}
			case "fmax", "fmin":
				a, b := af(0), af(1)
				// a >= b  <=>  (na*db - nb*da) * (da*db) >= 0
				diff := "(* (- " + mul(a.n, b.d) + " " + mul(b.n, a.d) + ") " + mul(a.d, b.d) + ")"
				cond := "(>= " + diff + " 0.0)"
				if t.Op == "fmin" {
					cond = "(<= " + diff + " 0.0)"
				}
				def(t, "(ite "+cond+" "+a.n+" "+b.n+")", "(ite "+cond+" "+a.d+" "+b.d+")")
			case "ffloor", "fceil", "ftrunc", "fround":
				x := val(af(0))
				fl := "(to_real (to_int " + x + "))"
				e := fl
				switch t.Op {
				case "fceil":
					e = "(- (to_real (to_int (- " + x + "))))"
				case "ftrunc":
					e = "(ite (>= " + x + " 0.0) " + fl + " (- (to_real (to_int (- " + x + ")))))"
				case "fround":
					e = "(ite (>= " + x + " 0.0) (to_real (to_int (+ " + x + " 0.5))) (- (to_real (to_int (+ (- " + x + ") 0.5)))))"
				}
				def(t, e, one)
			case "fconv":
				fr[t.ID] = af(0)
			case "i2f":
				def(t, "(to_real "+p.names[t.Args[0].ID]+")", one)
			case "uf":
				var as []term.Sort
				var sb strings.Builder
				name := sym("UF_" + t.Name)
				sb.WriteString("(" + name)
				for i, x := range t.Args {
					as = append(as, x.Sort)
					if x.Sort.K == term.KFloat {
						sb.WriteString(" " + val(af(i)))
					} else {
						sb.WriteString(" " + p.names[x.ID])
					}
				}
				sb.WriteString(")")
				p.declUF(name, as, t.Sort)
				e := sb.String()
				if len(t.Args) == 0 {
					e = name
				}
				def(t, e, one)
				if strings.HasPrefix(t.Name, "h.") {
					app := UFApp{Name: strings.TrimPrefix(t.Name, "h."), Val: [2]string{fr[t.ID].n, fr[t.ID].d}}
					for i, x := range t.Args {
						if x.Sort.K == term.KFloat {
							app.Args = append(app.Args, [2]string{af(i).n, af(i).d})
						}
					}
					sc.UFApps = append(sc.UFApps, app)
				}
			default:
				p.fail("lift: unprintable float op %s", t.Op)
				fr[t.ID] = frac{"0.0", one}
			}
		default:
			// bool / int terms; comparisons over floats are lifted
			var e string
			if len(t.Args) > 0 && t.Args[0].Sort.K == term.KFloat {
				a := fr[t.Args[0].ID]
				var b frac
				if len(t.Args) > 1 {
					b = fr[t.Args[1].ID]
				}
				lhs := func() string { return "(- " + mul(a.n, b.d) + " " + mul(b.n, a.d) + ")" }
				sgn := func() string { return mul(a.d, b.d) }
				switch t.Op {
				case "feq", "fsamebits":
					needNZ(a.d)
					needNZ(b.d)
					e = "(= " + mul(a.n, b.d) + " " + mul(b.n, a.d) + ")"
				case "flt":
					needNZ(a.d)
					needNZ(b.d)
					if sgn() == one {
						e = "(< " + a.n + " " + b.n + ")"
					} else {
						e = "(< (* " + lhs() + " " + sgn() + ") 0.0)"
					}
				case "fle":
					needNZ(a.d)
					needNZ(b.d)
					if sgn() == one {
						e = "(<= " + a.n + " " + b.n + ")"
					} else {
						e = "(<= (* " + lhs() + " " + sgn() + ") 0.0)"
					}
				case "fisnan", "fisinf", "fisposinf", "fisneginf":
					e = "false"
				case "fsignbit":
					e = "(< " + mul(a.n, a.d) + " 0.0)"
				case "f2i":
					v := val(a)
					e = "(ite (>= " + v + " 0.0) (to_int " + v + ") (- (to_int (- " + v + "))))"
				case "uf":
					var as []term.Sort
					var sb strings.Builder
					name := sym("UF_" + t.Name)
					sb.WriteString("(" + name)
					for i, x := range t.Args {
						as = append(as, x.Sort)
						if x.Sort.K == term.KFloat {
							sb.WriteString(" " + val(fr[t.Args[i].ID]))
						} else {
							sb.WriteString(" " + p.names[x.ID])
						}
					}
					sb.WriteString(")")
					p.declUF(name, as, t.Sort)
					e = sb.String()
				default:
					e = p.fail("lift: unprintable op %s over floats", t.Op)
				}
			} else {
				e = p.expr(t)
			}
			n := fmt.Sprintf("t!%d", t.ID)
			p.names[t.ID] = n
			fmt.Fprintf(&body, "(define-fun %s () %s %s)\n", n, p.sortName(t.Sort), e)
		}
	}
	for _, t := range asserts {
		fmt.Fprintf(&body, "(assert %s)\n", p.names[t.ID])
	}
	sort.Slice(sc.Vars, func(i, j int) bool { return sc.Vars[i].Name < sc.Vars[j].Name })
	sc.Text = vdecl.String() + strings.Join(p.decls, "") + body.String() + side.String()
	sc.Err = p.err
	return sc
}
