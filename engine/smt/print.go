// Package smt prints term DAGs as SMT-LIB2 under one of the arithmetic
// interpretations of DESIGN.md section 3 and talks to the solver processes.
package smt

import (
	"fmt"
	"math"
	"math/big"
	"sort"
	"strconv"
	"strings"

	"verif/engine/term"
)

type Mode struct {
	Float string // "fp" | "fpuf" | "real"
	Int   string // "bv" | "int"
	// Lift (real mode): print every real term as a division-free pair
	// numerator/denominator ("fraction lifting", DESIGN 3.2); denominators are
	// assumed non-zero (the claim is about the interior of the domain)
	Lift bool
}

// UFApp is an application of a harness-level uninterpreted function (h.*)
// whose value and argument values are read back from a model so that the
// native replay can use the same objective values.
type UFApp struct {
	Name string
	Args [][2]string // numerator / denominator symbol per argument ("1.0" denominators allowed)
	Val  [2]string
}

// FPApp: an application of a harness objective ("h.*") in the bit-precise
// float encodings; Val and Args are the defined symbols of the terms
type FPApp struct {
	Name string
	Val  string
	Args []string
}

type Script struct {
	UFApps   []UFApp
	FPApps   []FPApp
	Mode     Mode
	Text     string            // declarations + definitions + assertions
	Vars     []*term.Term      // input variables appearing in the script
	GetNames map[string]string // var name -> smt symbol to (get-value)
	Err      error
}

type printer struct {
	mode  Mode
	b     strings.Builder
	names map[int]string
	ufs   map[string]bool
	decls []string
	sqrts []*term.Term
	err   error
}

func sym(name string) string {
	ok := true
	for _, c := range name {
		if !(c == '_' || c == '.' || (c >= '0' && c <= '9') || (c >= 'a' && c <= 'z') || (c >= 'A' && c <= 'Z')) {
			ok = false
		}
	}
	if ok && len(name) > 0 && !(name[0] >= '0' && name[0] <= '9') {
		return name
	}
	return "|" + strings.ReplaceAll(name, "|", "!") + "|"
}

func (p *printer) sortName(s term.Sort) string {
	switch s.K {
	case term.KBool:
		return "Bool"
	case term.KInt:
		if p.mode.Int == "int" {
			return "Int"
		}
		return fmt.Sprintf("(_ BitVec %d)", s.Bits)
	default:
		if p.mode.Float == "real" {
			return "Real"
		}
		if s.Bits == 32 {
			return "(_ FloatingPoint 8 24)"
		}
		return "(_ FloatingPoint 11 53)"
	}
}

func fpLit(s term.Sort, f float64) string {
	if s.Bits == 32 {
		b := math.Float32bits(float32(f))
		return fmt.Sprintf("(fp #b%01b #b%08b #b%023b)", b>>31, (b>>23)&0xff, b&0x7fffff)
	}
	b := math.Float64bits(f)
	return fmt.Sprintf("(fp #b%01b #b%011b #b%052b)", b>>63, (b>>52)&0x7ff, b&0xfffffffffffff)
}

func ratLit(f float64) (string, error) {
	if f != f || math.IsInf(f, 0) {
		return "", fmt.Errorf("non-finite constant %v in real mode", f)
	}
	r := new(big.Rat)
	r.SetFloat64(f)
	// constants written as short decimals in the source (1e-4, 0.9, 2.5) are read
	// as that decimal, not as the nearest binary fraction: the real
	// interpretation is about the formula, and the huge denominators of the
	// binary fractions slow nlsat down markedly
	if s := strconv.FormatFloat(f, 'g', -1, 64); len(strings.TrimLeft(strings.Replace(strings.Split(s, "e")[0], ".", "", 1), "-0")) <= 6 {
		if q, ok := new(big.Rat).SetString(s); ok {
			r = q
		}
	}
	neg := r.Sign() < 0
	if neg {
		r.Neg(r)
	}
	var s string
	if r.IsInt() {
		s = r.Num().String() + ".0"
	} else {
		s = "(/ " + r.Num().String() + ".0 " + r.Denom().String() + ".0)"
	}
	if neg {
		s = "(- " + s + ")"
	}
	return s, nil
}

func intLit(mode Mode, t *term.Term) string {
	if mode.Int == "int" {
		if t.Sort.Signed {
			v := int64(t.C)
			if v < 0 {
				return fmt.Sprintf("(- %d)", new(big.Int).Neg(big.NewInt(v)))
			}
			return fmt.Sprintf("%d", v)
		}
		return fmt.Sprintf("%d", t.C)
	}
	w := t.Sort.Bits
	v := t.C
	if w < 64 {
		v &= (1 << uint(w)) - 1
	}
	return fmt.Sprintf("(_ bv%d %d)", v, w)
}

func (p *printer) fail(format string, args ...interface{}) string {
	if p.err == nil {
		p.err = fmt.Errorf(format, args...)
	}
	return "false"
}

// expr prints the defining expression of t in terms of the names of its args.
func (p *printer) expr(t *term.Term) string {
	a := func(i int) string { return p.names[t.Args[i].ID] }
	fpm := p.mode.Float
	switch t.Op {
	case "const":
		switch t.Sort.K {
		case term.KBool:
			if t.BoolV() {
				return "true"
			}
			return "false"
		case term.KInt:
			return intLit(p.mode, t)
		default:
			if fpm == "real" {
				s, err := ratLit(t.F)
				if err != nil {
					return p.fail("%v", err)
				}
				return s
			}
			return fpLit(t.Sort, t.F)
		}
	case "not":
		return "(not " + a(0) + ")"
	case "and":
		return "(and " + a(0) + " " + a(1) + ")"
	case "or":
		return "(or " + a(0) + " " + a(1) + ")"
	case "ite":
		return "(ite " + a(0) + " " + a(1) + " " + a(2) + ")"
	case "eq":
		return "(= " + a(0) + " " + a(1) + ")"
	}
	// integers
	if t.Sort.K == term.KInt || (len(t.Args) > 0 && t.Args[0].Sort.K == term.KInt && (t.Op == "lt" || t.Op == "le")) {
		if s, ok := p.intExpr(t, a); ok {
			return s
		}
	}
	// floats
	switch t.Op {
	case "fadd", "fsub", "fmul", "fdiv":
		switch fpm {
		case "real":
			op := map[string]string{"fadd": "+", "fsub": "-", "fmul": "*", "fdiv": "/"}[t.Op]
			return "(" + op + " " + a(0) + " " + a(1) + ")"
		case "fpuf":
			name := fmt.Sprintf("UF_%s%d", t.Op, t.Sort.Bits)
			p.declUF(name, []term.Sort{t.Sort, t.Sort}, t.Sort)
			return "(" + name + " " + a(0) + " " + a(1) + ")"
		default:
			op := map[string]string{"fadd": "fp.add", "fsub": "fp.sub", "fmul": "fp.mul", "fdiv": "fp.div"}[t.Op]
			return "(" + op + " RNE " + a(0) + " " + a(1) + ")"
		}
	case "fneg":
		if fpm == "real" {
			return "(- " + a(0) + ")"
		}
		return "(fp.neg " + a(0) + ")"
	case "fabs":
		if fpm == "real" {
			return "(ite (>= " + a(0) + " 0.0) " + a(0) + " (- " + a(0) + "))"
		}
		return "(fp.abs " + a(0) + ")"
	case "fsqrt":
		switch fpm {
		case "real":
			name := "UF_sqrt"
			p.declUF(name, []term.Sort{t.Sort}, t.Sort)
			p.sqrts = append(p.sqrts, t)
			return "(" + name + " " + a(0) + ")"
		case "fpuf":
			name := fmt.Sprintf("UF_fsqrt%d", t.Sort.Bits)
			p.declUF(name, []term.Sort{t.Sort}, t.Sort)
			return "(" + name + " " + a(0) + ")"
		default:
			return "(fp.sqrt RNE " + a(0) + ")"
		}
	case "ffloor", "fceil", "ftrunc", "fround":
		if fpm == "real" {
			x := a(0)
			fl := "(to_real (to_int " + x + "))"
			switch t.Op {
			case "ffloor":
				return fl
			case "fceil":
				return "(- (to_real (to_int (- " + x + "))))"
			case "ftrunc":
				return "(ite (>= " + x + " 0.0) " + fl + " (- (to_real (to_int (- " + x + ")))))"
			default:
				return "(ite (>= " + x + " 0.0) (to_real (to_int (+ " + x + " 0.5))) (- (to_real (to_int (+ (- " + x + ") 0.5)))))"
			}
		}
		rm := map[string]string{"ffloor": "RTN", "fceil": "RTP", "ftrunc": "RTZ", "fround": "RNA"}[t.Op]
		return "(fp.roundToIntegral " + rm + " " + a(0) + ")"
	case "fmax", "fmin":
		if fpm == "real" {
			if t.Op == "fmax" {
				return "(ite (>= " + a(0) + " " + a(1) + ") " + a(0) + " " + a(1) + ")"
			}
			return "(ite (<= " + a(0) + " " + a(1) + ") " + a(0) + " " + a(1) + ")"
		}
		nan := fpLit(t.Sort, math.NaN())
		var pickZero, cmp string
		if t.Op == "fmax" {
			pickZero = "(ite (fp.isNegative " + a(0) + ") " + a(1) + " " + a(0) + ")"
			cmp = "(ite (fp.gt " + a(0) + " " + a(1) + ") " + a(0) + " " + a(1) + ")"
		} else {
			pickZero = "(ite (fp.isNegative " + a(0) + ") " + a(0) + " " + a(1) + ")"
			cmp = "(ite (fp.lt " + a(0) + " " + a(1) + ") " + a(0) + " " + a(1) + ")"
		}
		// Go: Max(x,+Inf)=+Inf even for NaN x; Min(x,-Inf) = -Inf
		inf := fpLit(t.Sort, math.Inf(1))
		isinf := "(or (= " + a(0) + " " + inf + ") (= " + a(1) + " " + inf + "))"
		if t.Op == "fmin" {
			inf = fpLit(t.Sort, math.Inf(-1))
			isinf = "(or (= " + a(0) + " " + inf + ") (= " + a(1) + " " + inf + "))"
		}
		return "(ite " + isinf + " " + inf + " (ite (or (fp.isNaN " + a(0) + ") (fp.isNaN " + a(1) + ")) " + nan +
			" (ite (and (fp.isZero " + a(0) + ") (fp.isZero " + a(1) + ")) " + pickZero + " " + cmp + ")))"
	case "flt":
		if fpm == "real" {
			return "(< " + a(0) + " " + a(1) + ")"
		}
		return "(fp.lt " + a(0) + " " + a(1) + ")"
	case "fle":
		if fpm == "real" {
			return "(<= " + a(0) + " " + a(1) + ")"
		}
		return "(fp.leq " + a(0) + " " + a(1) + ")"
	case "feq":
		if fpm == "real" {
			return "(= " + a(0) + " " + a(1) + ")"
		}
		return "(fp.eq " + a(0) + " " + a(1) + ")"
	case "fsamebits":
		return "(= " + a(0) + " " + a(1) + ")"
	case "fisnan":
		if fpm == "real" {
			return "false"
		}
		return "(fp.isNaN " + a(0) + ")"
	case "fisinf":
		if fpm == "real" {
			return "false"
		}
		return "(fp.isInfinite " + a(0) + ")"
	case "fisposinf":
		if fpm == "real" {
			return "false"
		}
		return "(= " + a(0) + " " + fpLit(t.Args[0].Sort, math.Inf(1)) + ")"
	case "fisneginf":
		if fpm == "real" {
			return "false"
		}
		return "(= " + a(0) + " " + fpLit(t.Args[0].Sort, math.Inf(-1)) + ")"
	case "fsignbit":
		if fpm == "real" {
			return "(< " + a(0) + " 0.0)"
		}
		return "(fp.isNegative " + a(0) + ")"
	case "fconv":
		if fpm == "real" {
			return a(0)
		}
		if fpm == "fpuf" && t.Sort.Bits < t.Args[0].Sort.Bits {
			// narrowing rounds: keep exact (cheap) rather than uninterpreted
		}
		if t.Sort.Bits == 32 {
			return "((_ to_fp 8 24) RNE " + a(0) + ")"
		}
		return "((_ to_fp 11 53) RNE " + a(0) + ")"
	case "i2f":
		if fpm == "real" {
			if p.mode.Int != "int" {
				return p.fail("i2f needs int mode 'int' in real mode")
			}
			return "(to_real " + a(0) + ")"
		}
		eb, sb := 11, 53
		if t.Sort.Bits == 32 {
			eb, sb = 8, 24
		}
		if p.mode.Int == "int" {
			return fmt.Sprintf("((_ to_fp %d %d) RNE (to_real %s))", eb, sb, a(0))
		}
		if t.Args[0].Sort.Signed {
			return fmt.Sprintf("((_ to_fp %d %d) RNE %s)", eb, sb, a(0))
		}
		return fmt.Sprintf("((_ to_fp_unsigned %d %d) RNE %s)", eb, sb, a(0))
	case "f2i":
		if fpm == "real" {
			if p.mode.Int != "int" {
				return p.fail("f2i needs int mode 'int' in real mode")
			}
			return "(ite (>= " + a(0) + " 0.0) (to_int " + a(0) + ") (- (to_int (- " + a(0) + "))))"
		}
		if p.mode.Int == "int" {
			return p.fail("f2i of symbolic float in int mode int with fp floats: %s", t.String())
		}
		if t.Sort.Signed {
			return fmt.Sprintf("((_ fp.to_sbv %d) RTZ %s)", t.Sort.Bits, a(0))
		}
		return fmt.Sprintf("((_ fp.to_ubv %d) RTZ %s)", t.Sort.Bits, a(0))
	case "uf":
		var as []term.Sort
		var sb strings.Builder
		name := "UF_" + t.Name
		if t.Sort.K == term.KFloat && fpm != "real" {
			name = fmt.Sprintf("UF_%s_%d", t.Name, t.Sort.Bits)
		}
		name = sym(name)
		sb.WriteString("(" + name)
		for i, x := range t.Args {
			as = append(as, x.Sort)
			sb.WriteString(" " + a(i))
		}
		sb.WriteString(")")
		p.declUF(name, as, t.Sort)
		if len(t.Args) == 0 {
			return name
		}
		return sb.String()
	}
	return p.fail("unprintable op %s", t.Op)
}

func (p *printer) intExpr(t *term.Term, a func(int) string) (string, bool) {
	im := p.mode.Int
	signed := t.Sort.Signed
	if t.Op == "lt" || t.Op == "le" {
		signed = t.Args[0].Sort.Signed
	}
	if im == "int" {
		switch t.Op {
		case "add":
			return "(+ " + a(0) + " " + a(1) + ")", true
		case "sub":
			return "(- " + a(0) + " " + a(1) + ")", true
		case "mul":
			return "(* " + a(0) + " " + a(1) + ")", true
		case "neg":
			return "(- " + a(0) + ")", true
		case "div":
			x, y := a(0), a(1)
			// Go truncated division
			return "(ite (>= " + x + " 0) (ite (> " + y + " 0) (div " + x + " " + y + ") (- (div " + x + " (- " + y + ")))) " +
				"(ite (> " + y + " 0) (- (div (- " + x + ") " + y + ")) (div (- " + x + ") (- " + y + "))))", true
		case "rem":
			x, y := a(0), a(1)
			// sign follows dividend
			return "(ite (>= " + x + " 0) (mod " + x + " (abs " + y + ")) (- (mod (- " + x + ") (abs " + y + "))))", true
		case "lt":
			return "(< " + a(0) + " " + a(1) + ")", true
		case "le":
			return "(<= " + a(0) + " " + a(1) + ")", true
		case "iconv":
			return a(0), true // no overflow assumed in int mode (stated bound)
		case "and", "or", "xor", "andnot", "shl", "shr", "bitnot":
			return p.fail("bit operation %s in int mode", t.Op), true
		}
		return "", false
	}
	switch t.Op {
	case "add":
		return "(bvadd " + a(0) + " " + a(1) + ")", true
	case "sub":
		return "(bvsub " + a(0) + " " + a(1) + ")", true
	case "mul":
		return "(bvmul " + a(0) + " " + a(1) + ")", true
	case "neg":
		return "(bvneg " + a(0) + ")", true
	case "bitnot":
		return "(bvnot " + a(0) + ")", true
	case "and":
		return "(bvand " + a(0) + " " + a(1) + ")", true
	case "or":
		return "(bvor " + a(0) + " " + a(1) + ")", true
	case "xor":
		return "(bvxor " + a(0) + " " + a(1) + ")", true
	case "andnot":
		return "(bvand " + a(0) + " (bvnot " + a(1) + "))", true
	case "div":
		if signed {
			return "(bvsdiv " + a(0) + " " + a(1) + ")", true
		}
		return "(bvudiv " + a(0) + " " + a(1) + ")", true
	case "rem":
		if signed {
			return "(bvsrem " + a(0) + " " + a(1) + ")", true
		}
		return "(bvurem " + a(0) + " " + a(1) + ")", true
	case "lt":
		if signed {
			return "(bvslt " + a(0) + " " + a(1) + ")", true
		}
		return "(bvult " + a(0) + " " + a(1) + ")", true
	case "le":
		if signed {
			return "(bvsle " + a(0) + " " + a(1) + ")", true
		}
		return "(bvule " + a(0) + " " + a(1) + ")", true
	case "shl", "shr":
		cnt := p.resize(a(1), t.Args[1].Sort, t.Sort.Bits, false)
		op := "bvshl"
		if t.Op == "shr" {
			op = "bvlshr"
			if signed {
				op = "bvashr"
			}
		}
		return "(" + op + " " + a(0) + " " + cnt + ")", true
	case "iconv":
		from := t.Args[0].Sort
		return p.resize(a(0), from, t.Sort.Bits, from.Signed), true
	}
	return "", false
}

func (p *printer) resize(x string, from term.Sort, to int, signed bool) string {
	switch {
	case from.Bits == to:
		return x
	case from.Bits > to:
		return fmt.Sprintf("((_ extract %d 0) %s)", to-1, x)
	case signed:
		return fmt.Sprintf("((_ sign_extend %d) %s)", to-from.Bits, x)
	default:
		return fmt.Sprintf("((_ zero_extend %d) %s)", to-from.Bits, x)
	}
}

func (p *printer) declUF(name string, args []term.Sort, res term.Sort) {
	if p.ufs[name] {
		return
	}
	p.ufs[name] = true
	var as []string
	for _, s := range args {
		as = append(as, p.sortName(s))
	}
	// declarations are emitted ahead of definitions: collect in a side buffer
	p.decls = append(p.decls, fmt.Sprintf("(declare-fun %s (%s) %s)\n", name, strings.Join(as, " "), p.sortName(res)))
}

// Build prints the conjunction of assertions.
func Build(mode Mode, asserts []*term.Term) *Script {
	if mode.Float == "real" && mode.Lift {
		return buildLifted(mode, asserts)
	}
	p := &printer{mode: mode, names: map[int]string{}, ufs: map[string]bool{}}
	sc := &Script{Mode: mode, GetNames: map[string]string{}}
	var body strings.Builder
	var vdecl strings.Builder
	for _, t := range term.Topo(asserts...) {
		switch t.Op {
		case "var":
			n := sym(t.Name)
			p.names[t.ID] = n
			sc.Vars = append(sc.Vars, t)
			if t.Sort.K == term.KFloat && mode.Float != "real" {
				bn := sym(t.Name + "!bits")
				eb, sb := 11, 53
				if t.Sort.Bits == 32 {
					eb, sb = 8, 24
				}
				fmt.Fprintf(&vdecl, "(declare-const %s (_ BitVec %d))\n", bn, t.Sort.Bits)
				fmt.Fprintf(&vdecl, "(define-fun %s () %s ((_ to_fp %d %d) %s))\n", n, p.sortName(t.Sort), eb, sb, bn)
				sc.GetNames[t.Name] = bn
			} else {
				fmt.Fprintf(&vdecl, "(declare-const %s %s)\n", n, p.sortName(t.Sort))
				sc.GetNames[t.Name] = n
			}
		case "const":
			p.names[t.ID] = p.expr(t)
		default:
			e := p.expr(t)
			n := fmt.Sprintf("t!%d", t.ID)
			p.names[t.ID] = n
			fmt.Fprintf(&body, "(define-fun %s () %s %s)\n", n, p.sortName(t.Sort), e)
		}
	}
	if mode.Float != "real" {
		for _, t := range term.Topo(asserts...) {
			if t.Op == "uf" && strings.HasPrefix(t.Name, "h.") && t.Sort.K == term.KFloat {
				app := FPApp{Name: strings.TrimPrefix(t.Name, "h."), Val: p.names[t.ID]}
				ok := true
				for _, x := range t.Args {
					if x.Sort.K != term.KFloat {
						ok = false
					}
					app.Args = append(app.Args, p.names[x.ID])
				}
				if ok {
					sc.FPApps = append(sc.FPApps, app)
				}
			}
		}
	}
	for _, t := range p.sqrts {
		n, x := p.names[t.ID], p.names[t.Args[0].ID]
		fmt.Fprintf(&body, "(assert (=> (>= %s 0.0) (and (>= %s 0.0) (= (* %s %s) %s))))\n", x, n, n, n, x)
	}
	for _, t := range asserts {
		fmt.Fprintf(&body, "(assert %s)\n", p.names[t.ID])
	}
	sort.Slice(sc.Vars, func(i, j int) bool { return sc.Vars[i].Name < sc.Vars[j].Name })
	sc.Text = vdecl.String() + strings.Join(p.decls, "") + body.String()
	sc.Err = p.err
	return sc
}
