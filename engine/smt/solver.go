package smt

import (
	"bufio"
	"fmt"
	"io"
	"math"
	"math/big"
	"os"
	"os/exec"
	"strconv"
	"strings"
	"sync"
	"time"
)

// Result of one check-sat.
// UFValue is one point of a harness-level uninterpreted function in a model.
type UFValue struct {
	Name string
	Args []float64
	Val  float64
}

// MarshalJSON writes the floats as IEEE bit patterns ("f:<hex>", the format of
// model values): NaN and the infinities are legitimate objective values and
// have no JSON number.
func (u UFValue) MarshalJSON() ([]byte, error) {
	bits := func(f float64) string { return fmt.Sprintf("f:%x", math.Float64bits(f)) }
	var sb strings.Builder
	sb.WriteString("{\"name\":" + strconv.Quote(u.Name) + ",\"args\":[")
	for i, a := range u.Args {
		if i > 0 {
			sb.WriteString(",")
		}
		sb.WriteString("\"" + bits(a) + "\"")
	}
	sb.WriteString("],\"val\":\"" + bits(u.Val) + "\"}")
	return []byte(sb.String()), nil
}

type Result struct {
	UF     []UFValue
	Status string            // "sat" | "unsat" | "unknown" (timeouts, errors included)
	Model  map[string]string // var name -> raw value text (sat only)
	Note   string            // error / reason for unknown
	Solver string
	Dur    time.Duration
}

// Proc is one long-lived incremental solver process with a fixed per-query cap.
type Proc struct {
	Name       string
	argv       []string
	capMs      int
	cmd        *exec.Cmd
	in         io.WriteCloser
	out        *bufio.Reader
	lines      chan string
	mu         sync.Mutex
	Queries    int
	Time       time.Duration
	sinceStart int
}

const sentinel = "@@DONE@@"

// limited starts a solver under an address-space limit (3 GiB): a query that
// would exhaust memory ends as a dead solver (inconclusive) instead of
// inviting the kernel's OOM killer to pick some other process
func limited(argv []string) *exec.Cmd {
	quoted := make([]string, len(argv))
	for i, a := range argv {
		quoted[i] = "'" + strings.ReplaceAll(a, "'", "'\\''") + "'"
	}
	return exec.Command("sh", "-c", "ulimit -v 3145728; exec "+strings.Join(quoted, " "))
}

func NewProc(kind string, capMs int) *Proc {
	p := &Proc{Name: kind, capMs: capMs}
	switch kind {
	case "z3", "z3-new":
		p.argv = []string{kind, "-in"}
	case "cvc5":
		p.argv = []string{"cvc5", "--incremental", "--produce-models", "--fp-exp", fmt.Sprintf("--tlimit-per=%d", capMs)}
	default:
		panic("unknown solver " + kind)
	}
	return p
}

func (p *Proc) start() error {
	p.cmd = limited(p.argv)
	in, err := p.cmd.StdinPipe()
	if err != nil {
		return err
	}
	out, err := p.cmd.StdoutPipe()
	if err != nil {
		return err
	}
	p.cmd.Stderr = p.cmd.Stdout
	if err := p.cmd.Start(); err != nil {
		return err
	}
	p.in = in
	p.out = bufio.NewReaderSize(out, 1<<20)
	p.lines = make(chan string, 1024)
	go func(r *bufio.Reader, ch chan string) {
		for {
			l, err := r.ReadString('\n')
			if l != "" {
				ch <- strings.TrimRight(l, "\r\n")
			}
			if err != nil {
				close(ch)
				return
			}
		}
	}(p.out, p.lines)
	pre := "(set-option :produce-models true)\n"
	if strings.HasPrefix(p.Name, "z3") {
		pre += fmt.Sprintf("(set-option :timeout %d)\n", p.capMs)
	} else {
		pre += "(set-logic ALL)\n"
	}
	_, err = io.WriteString(p.in, pre)
	return err
}

func (p *Proc) Kill() {
	if p.cmd != nil && p.cmd.Process != nil {
		p.cmd.Process.Kill()
		p.cmd.Wait()
	}
	p.cmd = nil
}

// readUntilSentinel collects lines up to the sentinel or the deadline.
func (p *Proc) readUntilSentinel(deadline time.Duration) ([]string, bool) {
	var got []string
	timer := time.NewTimer(deadline)
	defer timer.Stop()
	for {
		select {
		case l, ok := <-p.lines:
			if !ok {
				return got, false
			}
			if strings.Contains(l, sentinel) {
				return got, true
			}
			got = append(got, l)
		case <-timer.C:
			return got, false
		}
	}
}

// Check runs one query in a push/pop frame.
func (p *Proc) Check(sc *Script, wantModel bool) (res Result) {
	p.mu.Lock()
	defer p.mu.Unlock()
	t0 := time.Now()
	res = Result{Status: "unknown", Solver: p.Name}
	defer func() {
		res.Dur = time.Since(t0)
		p.Queries++
		p.Time += res.Dur
	}()
	if sc.Err != nil {
		res.Note = "encode: " + sc.Err.Error()
		return res
	}
	if p.cmd != nil && p.sinceStart >= 250 {
		// long-lived incremental processes slow down as push/pop frames pile
		// up internal state (measured with cvc5): restart periodically
		p.Kill()
	}
	if p.cmd == nil {
		p.sinceStart = 0
		if err := p.start(); err != nil {
			res.Note = "start: " + err.Error()
			return res
		}
	}
	if d := os.Getenv("SYMGO_DUMP"); d != "" {
		f, _ := os.OpenFile(d, os.O_APPEND|os.O_CREATE|os.O_WRONLY, 0644)
		fmt.Fprintf(f, "; ---- %s\n%s", p.Name, sc.Text)
		defer func() { fmt.Fprintf(f, "; => %s %v\n", res.Status, time.Since(t0)); f.Close() }()
	}
	p.sinceStart++
	script := "(push 1)\n" + sc.Text + "(check-sat)\n(echo \"" + sentinel + "\")\n"
	if _, err := io.WriteString(p.in, script); err != nil {
		p.Kill()
		res.Note = "write: " + err.Error()
		return res
	}
	lines, ok := p.readUntilSentinel(time.Duration(p.capMs)*time.Millisecond + 10*time.Second)
	if !ok {
		p.Kill()
		res.Note = "deadline/solver died: " + strings.Join(lines, " / ")
		return res
	}
	status := ""
	for _, l := range lines {
		if strings.Contains(l, "(error") || strings.Contains(l, "error:") {
			res.Note = l
			status = "unknown"
			break
		}
		switch strings.TrimSpace(l) {
		case "sat", "unsat", "unknown", "timeout":
			if status == "" {
				status = strings.TrimSpace(l)
			}
		}
	}
	if status == "timeout" || status == "" {
		if res.Note == "" {
			res.Note = "no verdict: " + strings.Join(lines, " / ")
		}
		status = "unknown"
	}
	if status == "unknown" && res.Note == "" {
		res.Note = "solver said unknown"
	}
	res.Status = status
	if status == "sat" && wantModel && len(sc.GetNames) > 0 {
		var names []string
		var order []string
		for vn, sn := range sc.GetNames {
			names = append(names, sn)
			order = append(order, vn)
		}
		q := "(get-value (" + strings.Join(names, " ") + "))\n(echo \"" + sentinel + "\")\n"
		if _, err := io.WriteString(p.in, q); err == nil {
			ml, ok := p.readUntilSentinel(30 * time.Second)
			if ok {
				res.Model = parseModel(strings.Join(ml, " "), sc.GetNames)
			} else {
				p.Kill()
				res.Note = "model read failed"
				return res
			}
		}
		_ = order
	}
	if status == "sat" && wantModel && len(sc.FPApps) > 0 && p.cmd != nil {
		// values of the harness objectives at the model's points (native replay)
		seen := map[string]bool{}
		var syms []string
		add := func(n string) {
			if !seen[n] {
				seen[n] = true
				syms = append(syms, n)
			}
		}
		for _, a := range sc.FPApps {
			add(a.Val)
			for _, x := range a.Args {
				add(x)
			}
		}
		q := "(get-value (" + strings.Join(syms, " ") + "))\n(echo \"" + sentinel + "\")\n"
		if _, err := io.WriteString(p.in, q); err == nil {
			ml, ok := p.readUntilSentinel(30 * time.Second)
			if !ok {
				p.Kill()
				res.Note = "model read failed"
				return res
			}
			vals := map[string]float64{}
			for _, top := range parseSexps(strings.Join(ml, " ")) {
				for _, pair := range top.list {
					if pair.list != nil && len(pair.list) == 2 {
						if f, ok := parseFPValue(pair.list[1]); ok {
							vals[pair.list[0].String()] = f
						}
					}
				}
			}
			lookup := func(n string) (float64, bool) {
				if f, ok := vals[n]; ok {
					return f, true
				}
				// constants are printed inline by the encoder
				for _, e := range parseSexps(n) {
					return parseFPValue(e)
				}
				return 0, false
			}
			for _, a := range sc.FPApps {
				e := UFValue{Name: a.Name}
				v, ok := lookup(a.Val)
				if !ok {
					continue
				}
				e.Val = v
				good := true
				for _, x := range a.Args {
					xv, ok := lookup(x)
					if !ok {
						good = false
					}
					e.Args = append(e.Args, xv)
				}
				if good {
					res.UF = append(res.UF, e)
				}
			}
		}
	}
	if p.cmd != nil {
		io.WriteString(p.in, "(pop 1)\n")
	}
	return res
}

// parseFPValue reads a floating-point model value: (fp #b0 #b... #b...),
// (_ +zero 11 53), (_ -oo 11 53), (_ NaN 11 53), ((_ to_fp 11 53) #x...)
func parseFPValue(e *sexp) (float64, bool) {
	if e == nil || e.list == nil {
		return 0, false
	}
	l := e.list
	if len(l) == 4 && l[0].atom == "fp" {
		sg, ok1 := ParseBits(l[1].atom)
		ex, ok2 := ParseBits(l[2].atom)
		mn, ok3 := ParseBits(l[3].atom)
		if !ok1 || !ok2 || !ok3 {
			return 0, false
		}
		eb := len(l[2].atom) - 2
		if strings.HasPrefix(l[2].atom, "#x") {
			eb *= 4
		}
		if eb == 11 {
			return math.Float64frombits(sg<<63 | ex<<52 | mn), true
		}
		if eb == 8 {
			return float64(math.Float32frombits(uint32(sg<<31 | ex<<23 | mn))), true
		}
		return 0, false
	}
	if len(l) == 4 && l[0].atom == "_" {
		switch l[1].atom {
		case "+zero":
			return 0, true
		case "-zero":
			return math.Copysign(0, -1), true
		case "+oo":
			return math.Inf(1), true
		case "-oo":
			return math.Inf(-1), true
		case "NaN":
			return math.NaN(), true
		}
	}
	if len(l) == 2 && l[0].list != nil && len(l[0].list) == 4 && l[0].list[1].atom == "to_fp" {
		u, ok := ParseBits(l[1].atom)
		if !ok {
			return 0, false
		}
		if l[0].list[2].atom == "11" {
			return math.Float64frombits(u), true
		}
		return float64(math.Float32frombits(uint32(u))), true
	}
	return 0, false
}

// OneShot runs a fresh solver process on the script (NRA: non-incremental is
// markedly better, DESIGN 3.2).
func OneShot(kind string, sc *Script, capMs int, wantModel bool) Result {
	t0 := time.Now()
	res := Result{Status: "unknown", Solver: kind}
	if sc.Err != nil {
		res.Note = "encode: " + sc.Err.Error()
		return res
	}
	var argv []string
	switch kind {
	case "z3", "z3-new":
		argv = []string{kind, "-in", fmt.Sprintf("-T:%d", (capMs+999)/1000)}
	default:
		argv = []string{"cvc5", "--produce-models", fmt.Sprintf("--tlimit=%d", capMs)}
	}
	text := "(set-option :produce-models true)\n"
	if kind == "cvc5" {
		text += "(set-logic ALL)\n"
	} else {
		text += "(set-option :pp.decimal true)\n(set-option :pp.decimal_precision 20)\n"
	}
	text += sc.Text + "(check-sat)\n"
	if wantModel && (len(sc.GetNames) > 0 || len(sc.UFApps) > 0) {
		var names []string
		for _, sn := range sc.GetNames {
			names = append(names, sn)
		}
		if len(names) > 0 {
			text += "(get-value (" + strings.Join(names, " ") + "))\n"
		}
		if len(sc.UFApps) > 0 {
			seen := map[string]bool{}
			var extra []string
			add := func(n string) {
				if n != "1.0" && !seen[n] {
					seen[n] = true
					extra = append(extra, n)
				}
			}
			for _, a := range sc.UFApps {
				add(a.Val[0])
				add(a.Val[1])
				for _, x := range a.Args {
					add(x[0])
					add(x[1])
				}
			}
			text += "(get-value (" + strings.Join(extra, " ") + "))\n"
		}
	}
	if d := os.Getenv("SYMGO_DUMP"); d != "" {
		f, _ := os.OpenFile(d+".oneshot", os.O_APPEND|os.O_CREATE|os.O_WRONLY, 0644)
		fmt.Fprintf(f, "; ---- oneshot %s\n%s", kind, text)
		f.Close()
	}
	cmd := limited(argv)
	cmd.Stdin = strings.NewReader(text)
	done := make(chan struct{})
	var out []byte
	go func() {
		out, _ = cmd.CombinedOutput()
		close(done)
	}()
	select {
	case <-done:
	case <-time.After(time.Duration(capMs)*time.Millisecond + 5*time.Second):
		if cmd.Process != nil {
			cmd.Process.Kill()
		}
		<-done
		res.Note = "wall deadline"
		res.Dur = time.Since(t0)
		return res
	}
	res.Dur = time.Since(t0)
	s := string(out)
	lines := strings.Split(s, "\n")
	first := ""
	for _, l := range lines {
		l = strings.TrimSpace(l)
		if l == "sat" || l == "unsat" || l == "unknown" || l == "timeout" {
			first = l
			break
		}
		if strings.Contains(l, "(error") {
			break
		}
	}
	switch first {
	case "unsat":
		// the unconditional (get-value) after an unsat verdict answers "model is
		// not available"; any other error line makes the run inconclusive
		for _, l := range lines {
			if strings.Contains(l, "(error") && !strings.Contains(l, "model is not available") {
				res.Note = "error line in output: " + strings.TrimSpace(l)
				return res
			}
		}
		res.Status = "unsat"
	case "sat":
		res.Status = "sat"
		if i := strings.Index(s, "sat"); i >= 0 && wantModel {
			res.Model = parseModel(s[i+3:], sc.GetNames)
			if len(sc.UFApps) > 0 {
				vals := map[string]float64{"1.0": 1}
				for _, top := range parseSexps(s[i+3:]) {
					for _, pair := range top.list {
						if pair.list != nil && len(pair.list) == 2 {
							if f, ok := ParseReal(pair.list[1].String()); ok {
								vals[strings.Trim(pair.list[0].String(), "|")] = f
							}
						}
					}
				}
				get := func(nd [2]string) (float64, bool) {
					n, ok1 := vals[strings.Trim(nd[0], "|")]
					d, ok2 := vals[strings.Trim(nd[1], "|")]
					if !ok1 || !ok2 || d == 0 {
						return 0, false
					}
					return n / d, true
				}
				for _, a := range sc.UFApps {
					e := UFValue{Name: a.Name}
					v, ok := get(a.Val)
					if !ok {
						continue
					}
					e.Val = v
					good := true
					for _, x := range a.Args {
						xv, ok := get(x)
						if !ok {
							good = false
						}
						e.Args = append(e.Args, xv)
					}
					if good {
						res.UF = append(res.UF, e)
					}
				}
			}
		}
	default:
		res.Note = "no verdict: " + strings.TrimSpace(firstN(s, 300))
	}
	return res
}

func firstN(s string, n int) string {
	if len(s) > n {
		return s[:n]
	}
	return s
}

// ---- model parsing ------------------------------------------------------------

type sexp struct {
	atom string
	list []*sexp
}

func parseSexps(s string) []*sexp {
	var stack [][]*sexp
	cur := []*sexp{}
	i := 0
	for i < len(s) {
		c := s[i]
		switch {
		case c == '(':
			stack = append(stack, cur)
			cur = []*sexp{}
			i++
		case c == ')':
			if len(stack) == 0 {
				i++
				continue
			}
			n := &sexp{list: cur}
			if n.list == nil {
				n.list = []*sexp{}
			}
			cur = append(stack[len(stack)-1], n)
			stack = stack[:len(stack)-1]
			i++
		case c == ' ' || c == '\n' || c == '\t' || c == '\r':
			i++
		case c == '|':
			j := strings.IndexByte(s[i+1:], '|')
			if j < 0 {
				j = len(s) - i - 1
			}
			cur = append(cur, &sexp{atom: s[i : i+j+2]})
			i += j + 2
		case c == '"':
			j := strings.IndexByte(s[i+1:], '"')
			if j < 0 {
				j = len(s) - i - 1
			}
			cur = append(cur, &sexp{atom: s[i : i+j+2]})
			i += j + 2
		default:
			j := i
			for j < len(s) && !strings.ContainsRune("() \n\t\r", rune(s[j])) {
				j++
			}
			cur = append(cur, &sexp{atom: s[i:j]})
			i = j
		}
	}
	return cur
}

func (e *sexp) String() string {
	if e.list == nil {
		return e.atom
	}
	var parts []string
	for _, x := range e.list {
		parts = append(parts, x.String())
	}
	return "(" + strings.Join(parts, " ") + ")"
}

func parseModel(s string, getNames map[string]string) map[string]string {
	rev := map[string]string{}
	for vn, sn := range getNames {
		rev[strings.Trim(sn, "|")] = vn
	}
	m := map[string]string{}
	for _, top := range parseSexps(s) {
		if top.list == nil {
			continue
		}
		for _, pair := range top.list {
			if pair.list == nil || len(pair.list) != 2 {
				continue
			}
			if vn, ok := rev[strings.Trim(pair.list[0].String(), "|")]; ok {
				m[vn] = pair.list[1].String()
			}
		}
	}
	return m
}

// ParseBits reads #x.. / #b.. / (_ bvN w) values.
func ParseBits(v string) (uint64, bool) {
	v = strings.TrimSpace(v)
	switch {
	case strings.HasPrefix(v, "#x"):
		u, err := strconv.ParseUint(v[2:], 16, 64)
		return u, err == nil
	case strings.HasPrefix(v, "#b"):
		u, err := strconv.ParseUint(v[2:], 2, 64)
		return u, err == nil
	case strings.HasPrefix(v, "(_ bv"):
		f := strings.Fields(v[5:])
		if len(f) > 0 {
			u, err := strconv.ParseUint(f[0], 10, 64)
			return u, err == nil
		}
	}
	return 0, false
}

// ParseInt reads 5 / (- 5).
func ParseInt(v string) (int64, bool) {
	e := parseSexps(v)
	if len(e) != 1 {
		return 0, false
	}
	r, ok := evalRat(e[0])
	if !ok || !r.IsInt() || !r.Num().IsInt64() {
		return 0, false
	}
	return r.Num().Int64(), true
}

// ParseReal reads rationals, decimals (z3 pp.decimal, possibly ending in '?').
func ParseReal(v string) (float64, bool) {
	e := parseSexps(v)
	if len(e) != 1 {
		return 0, false
	}
	r, ok := evalRat(e[0])
	if !ok {
		return 0, false
	}
	f, _ := r.Float64()
	if math.IsInf(f, 0) {
		return 0, false
	}
	return f, true
}

func evalRat(e *sexp) (*big.Rat, bool) {
	if e.list == nil {
		a := strings.TrimSuffix(e.atom, "?")
		r := new(big.Rat)
		if _, ok := r.SetString(a); ok {
			return r, true
		}
		return nil, false
	}
	if len(e.list) == 0 {
		return nil, false
	}
	op := e.list[0].atom
	var args []*big.Rat
	for _, x := range e.list[1:] {
		r, ok := evalRat(x)
		if !ok {
			return nil, false
		}
		args = append(args, r)
	}
	switch {
	case op == "-" && len(args) == 1:
		return new(big.Rat).Neg(args[0]), true
	case op == "-" && len(args) == 2:
		return new(big.Rat).Sub(args[0], args[1]), true
	case op == "+" && len(args) == 2:
		return new(big.Rat).Add(args[0], args[1]), true
	case op == "*" && len(args) == 2:
		return new(big.Rat).Mul(args[0], args[1]), true
	case op == "/" && len(args) == 2:
		if args[1].Sign() == 0 {
			return nil, false
		}
		return new(big.Rat).Quo(args[0], args[1]), true
	case op == "to_real" && len(args) == 1:
		return args[0], true
	}
	return nil, false
}
