package term

import "math"

// Val is a concrete value of a term: B for bools, I for ints (extended to 64
// bits), F for floats.
type Val struct {
	B bool
	I uint64
	F float64
}

// Eval evaluates t under env (variable name -> value). ok is false when the
// term contains an uninterpreted function, an unbound variable or an operation
// whose concrete result is not modelled.
func Eval(t *Term, env map[string]Val, memo map[int]Val) (Val, bool) {
	if v, ok := memo[t.ID]; ok {
		return v, true
	}
	var args [3]Val
	if t.Op != "const" && t.Op != "var" {
		if len(t.Args) > 3 {
			return Val{}, false
		}
		for i, a := range t.Args {
			v, ok := Eval(a, env, memo)
			if !ok {
				return Val{}, false
			}
			args[i] = v
		}
	}
	var r Val
	ok := true
	s := t.Sort
	as := s
	if len(t.Args) > 0 {
		as = t.Args[0].Sort
	}
	f32 := func(x float64) float64 {
		if s.Bits == 32 {
			return float64(float32(x))
		}
		return x
	}
	switch t.Op {
	case "const":
		switch s.K {
		case KBool:
			r.B = t.C != 0
		case KInt:
			r.I = t.C
		default:
			r.F = t.F
		}
	case "var":
		r, ok = env[t.Name]
	case "not":
		r.B = !args[0].B
	case "and":
		r.B = args[0].B && args[1].B
	case "or":
		r.B = args[0].B || args[1].B
	case "ite":
		if args[0].B {
			r = args[1]
		} else {
			r = args[2]
		}
	case "eq":
		if as.K == KBool {
			r.B = args[0].B == args[1].B
		} else {
			r.B = args[0].I == args[1].I
		}
	case "add":
		r.I = normInt(s, args[0].I+args[1].I)
	case "sub":
		r.I = normInt(s, args[0].I-args[1].I)
	case "mul":
		r.I = normInt(s, args[0].I*args[1].I)
	case "neg":
		r.I = normInt(s, -args[0].I)
	case "bitnot":
		r.I = normInt(s, ^args[0].I)
	case "and_", "andnot", "xor", "or_":
		ok = false
	case "div", "rem":
		if args[1].I == 0 {
			return Val{}, false
		}
		if s.Signed {
			if t.Op == "div" {
				r.I = normInt(s, uint64(int64(args[0].I)/int64(args[1].I)))
			} else {
				r.I = normInt(s, uint64(int64(args[0].I)%int64(args[1].I)))
			}
		} else if t.Op == "div" {
			r.I = args[0].I / args[1].I
		} else {
			r.I = args[0].I % args[1].I
		}
	case "lt":
		if as.Signed {
			r.B = int64(args[0].I) < int64(args[1].I)
		} else {
			r.B = args[0].I < args[1].I
		}
	case "le":
		if as.Signed {
			r.B = int64(args[0].I) <= int64(args[1].I)
		} else {
			r.B = args[0].I <= args[1].I
		}
	case "iconv":
		r.I = normInt(s, args[0].I)
	case "fadd":
		r.F = f32(args[0].F + args[1].F)
	case "fsub":
		r.F = f32(args[0].F - args[1].F)
	case "fmul":
		r.F = f32(args[0].F * args[1].F)
	case "fdiv":
		r.F = f32(args[0].F / args[1].F)
	case "fneg":
		r.F = -args[0].F
	case "fabs":
		r.F = math.Abs(args[0].F)
	case "fsqrt":
		r.F = f32(math.Sqrt(args[0].F))
	case "ffloor":
		r.F = math.Floor(args[0].F)
	case "fceil":
		r.F = math.Ceil(args[0].F)
	case "ftrunc":
		r.F = math.Trunc(args[0].F)
	case "fround":
		r.F = math.Round(args[0].F)
	case "fmax":
		r.F = math.Max(args[0].F, args[1].F)
	case "fmin":
		r.F = math.Min(args[0].F, args[1].F)
	case "flt":
		r.B = args[0].F < args[1].F
	case "fle":
		r.B = args[0].F <= args[1].F
	case "feq":
		r.B = args[0].F == args[1].F
	case "fsamebits":
		a, b := args[0].F, args[1].F
		r.B = math.Float64bits(a) == math.Float64bits(b) || (a != a && b != b)
	case "fisnan":
		r.B = args[0].F != args[0].F
	case "fisinf":
		r.B = math.IsInf(args[0].F, 0)
	case "fisposinf":
		r.B = math.IsInf(args[0].F, 1)
	case "fisneginf":
		r.B = math.IsInf(args[0].F, -1)
	case "fsignbit":
		r.B = math.Signbit(args[0].F)
	case "fconv":
		r.F = f32(args[0].F)
	case "i2f":
		if as.Signed {
			r.F = f32(float64(int64(args[0].I)))
		} else {
			r.F = f32(float64(args[0].I))
		}
	case "uf":
		// libm heads are evaluated by Go's own math package: this is what the
		// native build computes for the same argument
		if f, has := Math1[t.Name]; has && len(t.Args) == 1 {
			r.F = f(args[0].F)
		} else if f, has := Math2[t.Name]; has && len(t.Args) == 2 {
			r.F = f(args[0].F, args[1].F)
		} else if t.Name == "math.LgammaSign" {
			_, sg := math.Lgamma(args[0].F)
			r.I = uint64(int64(sg))
		} else {
			ok = false
		}
	default:
		ok = false
	}
	if !ok {
		return Val{}, false
	}
	if memo != nil {
		memo[t.ID] = r
	}
	return r, true
}

var Math1 = map[string]func(float64) float64{
	"math.Exp": math.Exp, "math.Expm1": math.Expm1, "math.Log": math.Log, "math.Log1p": math.Log1p, "math.Log2": math.Log2,
	"math.Log10": math.Log10, "math.Sin": math.Sin, "math.Cos": math.Cos, "math.Tan": math.Tan, "math.Sinh": math.Sinh,
	"math.Cosh": math.Cosh, "math.Tanh": math.Tanh, "math.Erf": math.Erf, "math.Erfc": math.Erfc, "math.Gamma": math.Gamma,
	"math.Floor": math.Floor, "math.Ceil": math.Ceil, "math.Trunc": math.Trunc, "math.Round": math.Round, "math.Atan": math.Atan,
	"math.Asin": math.Asin, "math.Acos": math.Acos, "math.Cbrt": math.Cbrt, "math.Erfinv": math.Erfinv,
	"math.Lgamma": func(x float64) float64 { v, _ := math.Lgamma(x); return v },
}

var Math2 = map[string]func(a, b float64) float64{
	"math.Pow": math.Pow, "math.Mod": math.Mod, "math.Atan2": math.Atan2, "math.Hypot": math.Hypot, "math.Nextafter": math.Nextafter,
}
