// Package term is the hash-consed term DAG shared by the symbolic executor and
// the SMT printers. Terms are interpretation-agnostic: the same float term is
// printed as IEEE (fp), as uninterpreted arithmetic over the FP sort (fpuf) or
// as real arithmetic (real) by package smt.
package term

import (
	"fmt"
	"math"
	"sort"
	"strings"
)

type Kind uint8

const (
	KBool Kind = iota
	KInt
	KFloat
)

type Sort struct {
	K      Kind
	Bits   int  // KInt: 8,16,32,64; KFloat: 32,64
	Signed bool // KInt only
}

var (
	Bool = Sort{K: KBool}
	I64  = Sort{K: KInt, Bits: 64, Signed: true}
	U64  = Sort{K: KInt, Bits: 64, Signed: false}
	F64  = Sort{K: KFloat, Bits: 64}
	F32  = Sort{K: KFloat, Bits: 32}
)

func IntSort(bits int, signed bool) Sort { return Sort{K: KInt, Bits: bits, Signed: signed} }

func (s Sort) String() string {
	switch s.K {
	case KBool:
		return "bool"
	case KInt:
		if s.Signed {
			return fmt.Sprintf("i%d", s.Bits)
		}
		return fmt.Sprintf("u%d", s.Bits)
	default:
		return fmt.Sprintf("f%d", s.Bits)
	}
}

type Term struct {
	ID   int
	Op   string
	Sort Sort
	Args []*Term
	C    uint64  // const: int bits (sign/zero-extended to 64) or bool 0/1
	F    float64 // const float (float32 values widened exactly)
	Name string  // var / uf name
}

var (
	table  = map[string]*Term{}
	nextID = 1
	// RealSimplify enables x+0, x*1, x*0 style rewrites that are valid over the
	// reals but not in IEEE arithmetic. Set by the executor per harness mode.
	RealSimplify = false
)

func NumTerms() int { return nextID - 1 }

func intern(t *Term) *Term {
	var b strings.Builder
	b.WriteString(t.Op)
	b.WriteByte('|')
	b.WriteString(t.Sort.String())
	b.WriteByte('|')
	for _, a := range t.Args {
		fmt.Fprintf(&b, "%d,", a.ID)
	}
	switch t.Op {
	case "const":
		if t.Sort.K == KFloat {
			fmt.Fprintf(&b, "%x", math.Float64bits(t.F))
		} else {
			fmt.Fprintf(&b, "%x", t.C)
		}
	case "var", "uf":
		b.WriteString(t.Name)
	case "iconv", "fconv", "i2f", "f2i":
		// sort is part of key already
	}
	k := b.String()
	if old, ok := table[k]; ok {
		return old
	}
	t.ID = nextID
	nextID++
	table[k] = t
	return t
}

func (t *Term) IsConst() bool { return t.Op == "const" }

// ---- constants --------------------------------------------------------------

var (
	True  = intern(&Term{Op: "const", Sort: Bool, C: 1})
	False = intern(&Term{Op: "const", Sort: Bool, C: 0})
)

func BoolC(b bool) *Term {
	if b {
		return True
	}
	return False
}

// normInt wraps v to the sort's width and extends it to 64 bits.
func normInt(s Sort, v uint64) uint64 {
	switch s.Bits {
	case 64:
		return v
	}
	sh := uint(64 - s.Bits)
	if s.Signed {
		return uint64(int64(v<<sh) >> sh)
	}
	return (v << sh) >> sh
}

func IntC(s Sort, v int64) *Term {
	return intern(&Term{Op: "const", Sort: s, C: normInt(s, uint64(v))})
}
func UintC(s Sort, v uint64) *Term {
	return intern(&Term{Op: "const", Sort: s, C: normInt(s, v)})
}
func FloatC(s Sort, f float64) *Term {
	if s.Bits == 32 {
		f = float64(float32(f))
	}
	if f != f {
		f = math.NaN() // canonical NaN
	}
	return intern(&Term{Op: "const", Sort: s, F: f})
}

func (t *Term) Int() int64   { return int64(t.C) }
func (t *Term) Uint() uint64 { return t.C }
func (t *Term) BoolV() bool  { return t.C != 0 }

func Var(s Sort, name string) *Term { return intern(&Term{Op: "var", Sort: s, Name: name}) }

// UF is an uninterpreted function application (math.Exp, special.*, objective
// stubs). Result sort s.
func UF(s Sort, name string, args ...*Term) *Term {
	return intern(&Term{Op: "uf", Sort: s, Name: name, Args: args})
}

func mk(op string, s Sort, args ...*Term) *Term {
	return intern(&Term{Op: op, Sort: s, Args: args})
}

func sort2(a, b *Term) (*Term, *Term) {
	if a.ID > b.ID {
		return b, a
	}
	return a, b
}

// ---- booleans ---------------------------------------------------------------

func Not(a *Term) *Term {
	if a.IsConst() {
		return BoolC(!a.BoolV())
	}
	if a.Op == "not" {
		return a.Args[0]
	}
	return mk("not", Bool, a)
}

func And(a, b *Term) *Term {
	if a.IsConst() {
		if a.BoolV() {
			return b
		}
		return False
	}
	if b.IsConst() {
		if b.BoolV() {
			return a
		}
		return False
	}
	if a == b {
		return a
	}
	a, b = sort2(a, b)
	return mk("and", Bool, a, b)
}

func Or(a, b *Term) *Term {
	if a.IsConst() {
		if a.BoolV() {
			return True
		}
		return b
	}
	if b.IsConst() {
		if b.BoolV() {
			return True
		}
		return a
	}
	if a == b {
		return a
	}
	a, b = sort2(a, b)
	return mk("or", Bool, a, b)
}

func AndAll(ts []*Term) *Term {
	r := True
	for _, t := range ts {
		r = And(r, t)
	}
	return r
}

func Ite(c, a, b *Term) *Term {
	if c.IsConst() {
		if c.BoolV() {
			return a
		}
		return b
	}
	if a == b {
		return a
	}
	if a.Sort.K == KBool && a.IsConst() && b.IsConst() {
		if a.BoolV() {
			return c
		}
		return Not(c)
	}
	return mk("ite", a.Sort, c, a, b)
}

// Eq is equality on bool / int terms (floats use Feq).
func Eq(a, b *Term) *Term {
	if a == b {
		return True
	}
	if a.Sort.K == KFloat {
		panic("term.Eq on floats; use Feq")
	}
	if a.IsConst() && b.IsConst() {
		return BoolC(a.C == b.C)
	}
	a, b = sort2(a, b)
	return mk("eq", Bool, a, b)
}

// ---- integers ---------------------------------------------------------------

func ibin(op string, a, b *Term) *Term {
	s := a.Sort
	if a.IsConst() && b.IsConst() {
		x, y := a.C, b.C
		var r uint64
		switch op {
		case "add":
			r = x + y
		case "sub":
			r = x - y
		case "mul":
			r = x * y
		case "and":
			r = x & y
		case "or":
			r = x | y
		case "xor":
			r = x ^ y
		case "andnot":
			r = x &^ y
		case "div":
			if y == 0 {
				return nil
			}
			if s.Signed {
				r = uint64(int64(x) / int64(y))
			} else {
				r = x / y
			}
		case "rem":
			if y == 0 {
				return nil
			}
			if s.Signed {
				r = uint64(int64(x) % int64(y))
			} else {
				r = x % y
			}
		}
		return UintC(s, r)
	}
	switch op {
	case "add":
		if a.IsConst() && a.C == 0 {
			return b
		}
		if b.IsConst() && b.C == 0 {
			return a
		}
	case "sub":
		if b.IsConst() && b.C == 0 {
			return a
		}
		if a == b {
			return IntC(s, 0)
		}
	case "mul":
		if a.IsConst() && a.C == 1 {
			return b
		}
		if b.IsConst() && b.C == 1 {
			return a
		}
		if (a.IsConst() && a.C == 0) || (b.IsConst() && b.C == 0) {
			return IntC(s, 0)
		}
	case "div":
		if b.IsConst() && b.C == 1 {
			return a
		}
	}
	switch op {
	case "add", "mul", "and", "or", "xor":
		a, b = sort2(a, b)
	}
	return mk(op, s, a, b)
}

func Add(a, b *Term) *Term    { return ibin("add", a, b) }
func Sub(a, b *Term) *Term    { return ibin("sub", a, b) }
func Mul(a, b *Term) *Term    { return ibin("mul", a, b) }
func BitAnd(a, b *Term) *Term { return ibin("and", a, b) }
func BitOr(a, b *Term) *Term  { return ibin("or", a, b) }
func BitXor(a, b *Term) *Term { return ibin("xor", a, b) }
func AndNot(a, b *Term) *Term { return ibin("andnot", a, b) }

// Div and Rem return nil for a constant zero divisor (caller raises the panic).
func Div(a, b *Term) *Term { return ibin("div", a, b) }
func Rem(a, b *Term) *Term { return ibin("rem", a, b) }

func Neg(a *Term) *Term {
	if a.IsConst() {
		return UintC(a.Sort, -a.C)
	}
	if a.Op == "neg" {
		return a.Args[0]
	}
	return mk("neg", a.Sort, a)
}

func BitNot(a *Term) *Term {
	if a.IsConst() {
		return UintC(a.Sort, ^a.C)
	}
	return mk("bitnot", a.Sort, a)
}

// Shl / Shr: shift count b is an unsigned or non-negative int term of any width.
func Shl(a, b *Term) *Term {
	if a.IsConst() && b.IsConst() {
		if b.C >= 64 {
			return IntC(a.Sort, 0)
		}
		return UintC(a.Sort, a.C<<b.C)
	}
	return mk("shl", a.Sort, a, b)
}
func Shr(a, b *Term) *Term {
	if a.IsConst() && b.IsConst() {
		n := b.C
		if a.Sort.Signed {
			if n >= 64 {
				n = 63
			}
			return UintC(a.Sort, uint64(int64(a.C)>>n))
		}
		if n >= 64 {
			return IntC(a.Sort, 0)
		}
		return UintC(a.Sort, a.C>>n)
	}
	return mk("shr", a.Sort, a, b)
}

func Lt(a, b *Term) *Term {
	if a == b {
		return False
	}
	if a.IsConst() && b.IsConst() {
		if a.Sort.Signed {
			return BoolC(int64(a.C) < int64(b.C))
		}
		return BoolC(a.C < b.C)
	}
	return mk("lt", Bool, a, b)
}
func Le(a, b *Term) *Term {
	if a == b {
		return True
	}
	if a.IsConst() && b.IsConst() {
		if a.Sort.Signed {
			return BoolC(int64(a.C) <= int64(b.C))
		}
		return BoolC(a.C <= b.C)
	}
	return mk("le", Bool, a, b)
}

// IConv converts an integer term to integer sort s (truncate / extend by the
// source signedness, as Go does).
func IConv(s Sort, a *Term) *Term {
	if a.Sort == s {
		return a
	}
	if a.IsConst() {
		return UintC(s, a.C)
	}
	if a.Sort.Bits == s.Bits {
		// same width, signedness change: reinterpret
		return mk("iconv", s, a)
	}
	return mk("iconv", s, a)
}

// ---- floats -----------------------------------------------------------------

func fround(s Sort, f float64) float64 {
	if s.Bits == 32 {
		return float64(float32(f))
	}
	return f
}

func fbin(op string, a, b *Term) *Term {
	s := a.Sort
	if a.IsConst() && b.IsConst() {
		x, y := a.F, b.F
		var r float64
		if s.Bits == 32 {
			x32, y32 := float32(x), float32(y)
			var r32 float32
			switch op {
			case "fadd":
				r32 = x32 + y32
			case "fsub":
				r32 = x32 - y32
			case "fmul":
				r32 = x32 * y32
			case "fdiv":
				r32 = x32 / y32
			}
			r = float64(r32)
		} else {
			switch op {
			case "fadd":
				r = x + y
			case "fsub":
				r = x - y
			case "fmul":
				r = x * y
			case "fdiv":
				r = x / y
			}
		}
		return FloatC(s, r)
	}
	if RealSimplify {
		// every non-constant value is finite in the real interpretation, so an
		// infinite constant absorbs sums and differences
		if ia, ib := realInf(a), realInf(b); ia != 0 || ib != 0 {
			switch op {
			case "fadd":
				if ia != 0 && ib == 0 {
					return a
				}
				if ib != 0 && ia == 0 {
					return b
				}
			case "fsub":
				if ia != 0 && ib == 0 {
					return a
				}
				if ib != 0 && ia == 0 {
					return FloatC(s, -b.F)
				}
			}
		}
		isC := func(t *Term, v float64) bool { return t.IsConst() && t.F == v }
		switch op {
		case "fadd":
			if isC(a, 0) {
				return b
			}
			if isC(b, 0) {
				return a
			}
		case "fsub":
			if isC(b, 0) {
				return a
			}
			if isC(a, 0) {
				return Fneg(b)
			}
			if a == b {
				return FloatC(s, 0)
			}
		case "fmul":
			if isC(a, 1) {
				return b
			}
			if isC(b, 1) {
				return a
			}
			if isC(a, 0) || isC(b, 0) {
				return FloatC(s, 0)
			}
			if isC(a, -1) {
				return Fneg(b)
			}
			if isC(b, -1) {
				return Fneg(a)
			}
		case "fdiv":
			if isC(b, 1) {
				return a
			}
			if isC(a, 0) {
				return FloatC(s, 0)
			}
		}
	} else {
		// exact in IEEE: x*1 = x, x/1 = x (up to NaN payload)
		isOne := func(t *Term) bool { return t.IsConst() && t.F == 1 }
		switch op {
		case "fmul":
			if isOne(a) {
				return b
			}
			if isOne(b) {
				return a
			}
		case "fdiv":
			if isOne(b) {
				return a
			}
		}
	}
	switch op {
	case "fadd", "fmul":
		a, b = sort2(a, b)
	}
	return mk(op, s, a, b)
}

func Fadd(a, b *Term) *Term { return fbin("fadd", a, b) }
func Fsub(a, b *Term) *Term { return fbin("fsub", a, b) }
func Fmul(a, b *Term) *Term { return fbin("fmul", a, b) }
func Fdiv(a, b *Term) *Term { return fbin("fdiv", a, b) }

func Fneg(a *Term) *Term {
	if a.IsConst() {
		return FloatC(a.Sort, -a.F)
	}
	if a.Op == "fneg" {
		return a.Args[0]
	}
	return mk("fneg", a.Sort, a)
}
func Fabs(a *Term) *Term {
	if a.IsConst() {
		return FloatC(a.Sort, math.Abs(a.F))
	}
	if a.Op == "fabs" {
		return a
	}
	if a.Op == "fneg" {
		return Fabs(a.Args[0])
	}
	return mk("fabs", a.Sort, a)
}
func Fsqrt(a *Term) *Term {
	if a.IsConst() {
		if a.Sort.Bits == 32 {
			return FloatC(a.Sort, float64(float32(math.Sqrt(float64(float32(a.F))))))
		}
		return FloatC(a.Sort, math.Sqrt(a.F))
	}
	return mk("fsqrt", a.Sort, a)
}

// Fround is math.Floor / Ceil / Trunc / Round (mode "floor", "ceil", "trunc", "round").
func Fround(mode string, a *Term) *Term {
	if a.IsConst() {
		var r float64
		switch mode {
		case "floor":
			r = math.Floor(a.F)
		case "ceil":
			r = math.Ceil(a.F)
		case "trunc":
			r = math.Trunc(a.F)
		default:
			r = math.Round(a.F)
		}
		return FloatC(a.Sort, r)
	}
	return mk("f"+mode, a.Sort, a)
}

// Fmax / Fmin follow Go's math.Max / math.Min special cases.
func Fmax(a, b *Term) *Term {
	if a.IsConst() && b.IsConst() {
		return FloatC(a.Sort, math.Max(a.F, b.F))
	}
	if realInf(a) == -1 {
		return b
	}
	if realInf(b) == -1 {
		return a
	}
	if a == b {
		return a
	}
	a, b = sort2(a, b)
	return mk("fmax", a.Sort, a, b)
}
func Fmin(a, b *Term) *Term {
	if a.IsConst() && b.IsConst() {
		return FloatC(a.Sort, math.Min(a.F, b.F))
	}
	if realInf(a) == 1 {
		return b
	}
	if realInf(b) == 1 {
		return a
	}
	if a == b {
		return a
	}
	a, b = sort2(a, b)
	return mk("fmin", a.Sort, a, b)
}

// realInf: in the real interpretation every non-constant value is finite, so
// comparisons against infinite constants are decided.
func realInf(a *Term) int {
	if RealSimplify && a.IsConst() {
		if math.IsInf(a.F, 1) {
			return 1
		}
		if math.IsInf(a.F, -1) {
			return -1
		}
	}
	return 0
}

func Flt(a, b *Term) *Term {
	if a.IsConst() && b.IsConst() {
		return BoolC(a.F < b.F)
	}
	if realInf(a) == -1 || realInf(b) == 1 {
		return True
	}
	if realInf(a) == 1 || realInf(b) == -1 {
		return False
	}
	if a == b {
		return False
	}
	return mk("flt", Bool, a, b)
}
func Fle(a, b *Term) *Term {
	if a.IsConst() && b.IsConst() {
		return BoolC(a.F <= b.F)
	}
	if realInf(a) == -1 || realInf(b) == 1 {
		return True
	}
	if realInf(a) == 1 || realInf(b) == -1 {
		return False
	}
	return mk("fle", Bool, a, b)
}

// Feq is Go's == on floats (false on NaN, -0 == +0).
func Feq(a, b *Term) *Term {
	if a.IsConst() && b.IsConst() {
		return BoolC(a.F == b.F)
	}
	a, b = sort2(a, b)
	return mk("feq", Bool, a, b)
}
func FisNaN(a *Term) *Term {
	if a.IsConst() {
		return BoolC(a.F != a.F)
	}
	return mk("fisnan", Bool, a)
}

// FisInf: sign > 0: +Inf, < 0: -Inf, 0: either.
func FisInf(a *Term, sign int) *Term {
	if a.IsConst() {
		return BoolC(math.IsInf(a.F, sign))
	}
	switch {
	case sign > 0:
		return mk("fisposinf", Bool, a)
	case sign < 0:
		return mk("fisneginf", Bool, a)
	}
	return mk("fisinf", Bool, a)
}
func FisNeg(a *Term) *Term { // math.Signbit
	if a.IsConst() {
		return BoolC(math.Signbit(a.F))
	}
	return mk("fsignbit", Bool, a)
}

// FSame is "same value for an oracle": Go == or both NaN.
func FSame(a, b *Term) *Term {
	if a == b {
		return True
	}
	return Or(Feq(a, b), And(FisNaN(a), FisNaN(b)))
}

// FSameBits: identical bit pattern up to NaN payload.
func FSameBits(a, b *Term) *Term {
	if a == b {
		return True
	}
	if a.IsConst() && b.IsConst() {
		return BoolC(math.Float64bits(a.F) == math.Float64bits(b.F))
	}
	a, b = sort2(a, b)
	return mk("fsamebits", Bool, a, b)
}

func FConv(s Sort, a *Term) *Term {
	if a.Sort == s {
		return a
	}
	if a.IsConst() {
		return FloatC(s, a.F)
	}
	// widening then narrowing back is the identity
	if a.Op == "fconv" && a.Args[0].Sort == s && s.Bits < a.Sort.Bits {
		return a.Args[0]
	}
	return mk("fconv", s, a)
}

func I2F(s Sort, a *Term) *Term {
	if a.IsConst() {
		if a.Sort.Signed {
			return FloatC(s, fround(s, float64(int64(a.C))))
		}
		return FloatC(s, fround(s, float64(a.C)))
	}
	return mk("i2f", s, a)
}

// F2I truncates toward zero; out-of-range behaviour is implementation defined
// in Go and left to the SMT semantics (callers state it as outside the claim).
func F2I(s Sort, a *Term) *Term {
	if a.IsConst() {
		f := a.F
		if f != f || math.IsInf(f, 0) {
			return mk("f2i", s, a)
		}
		if s.Signed {
			if f >= -9.2e18 && f <= 9.2e18 {
				return IntC(s, int64(f))
			}
		} else if f >= 0 && f <= 1.8e19 {
			return UintC(s, uint64(f))
		}
	}
	return mk("f2i", s, a)
}

// ---- traversal --------------------------------------------------------------

// Topo returns all sub-terms of roots in dependency order (args first).
func Topo(roots ...*Term) []*Term {
	seen := map[int]bool{}
	var out []*Term
	var visit func(t *Term)
	visit = func(t *Term) {
		if seen[t.ID] {
			return
		}
		seen[t.ID] = true
		for _, a := range t.Args {
			visit(a)
		}
		out = append(out, t)
	}
	for _, r := range roots {
		visit(r)
	}
	return out
}

func Vars(roots ...*Term) []*Term {
	var vs []*Term
	for _, t := range Topo(roots...) {
		if t.Op == "var" {
			vs = append(vs, t)
		}
	}
	sort.Slice(vs, func(i, j int) bool { return vs[i].Name < vs[j].Name })
	return vs
}

func HasUF(roots ...*Term) bool {
	for _, t := range Topo(roots...) {
		if t.Op == "uf" {
			return true
		}
	}
	return false
}

// HasUFOtherThanMath reports uninterpreted heads the evaluator cannot compute.
func HasUFOtherThanMath(roots ...*Term) bool {
	for _, t := range Topo(roots...) {
		if t.Op == "uf" && !strings.HasPrefix(t.Name, "math.") {
			return true
		}
	}
	return false
}

// String renders a compact prefix form for evidence samples and debugging.
func (t *Term) String() string {
	var b strings.Builder
	t.write(&b, 0)
	return b.String()
}

func (t *Term) write(b *strings.Builder, depth int) {
	if depth > 12 {
		b.WriteString("...")
		return
	}
	switch t.Op {
	case "const":
		switch t.Sort.K {
		case KBool:
			fmt.Fprintf(b, "%v", t.BoolV())
		case KInt:
			if t.Sort.Signed {
				fmt.Fprintf(b, "%d", int64(t.C))
			} else {
				fmt.Fprintf(b, "%d", t.C)
			}
		default:
			fmt.Fprintf(b, "%g", t.F)
		}
	case "var":
		b.WriteString(t.Name)
	default:
		b.WriteByte('(')
		if t.Op == "uf" {
			b.WriteString(t.Name)
		} else {
			b.WriteString(t.Op)
		}
		for _, a := range t.Args {
			b.WriteByte(' ')
			a.write(b, depth+1)
		}
		b.WriteByte(')')
	}
}
