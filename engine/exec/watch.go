package exec

import (
	"verif/engine/term"
)

// Write watch (C12): VerifWatch(label, obj) registers every scalar memory cell
// reachable from obj; a later store that changes the content of such a cell
// raises the proof obligation "old value = new value" under the current path
// condition, with the given label. The harness states the same fact natively
// (element-wise comparison after the call, same label), so a model of a failed
// obligation is confirmed by an ordinary run of the real code. The watch makes
// "the input object is not written" decidable for iterative routines whose
// symbolic paths cannot be followed to their end: the offending store is met
// long before the convergence loop is.
//
// Only cells holding scalars are watched (floats, ints, bools); insertions into
// and deletions from maps, and replaced slice headers, are not.

func (in *Interp) watchCollect(label string, v Value, seen map[interface{}]bool, depth int) {
	if depth > 12 {
		return
	}
	cell := func(p *Value) {
		if p == nil {
			return
		}
		if seen[p] {
			return
		}
		seen[p] = true
		if _, ok := (*p).(*term.Term); ok {
			in.watch[p] = label
			return
		}
		in.watchCollect(label, *p, seen, depth+1)
	}
	switch x := v.(type) {
	case *Value:
		cell(x)
	case []Value:
		for i := range x {
			cell(&x[i])
		}
	case Struct:
		for i := range x {
			cell(&x[i])
		}
	case Array:
		for i := range x {
			cell(&x[i])
		}
	case Iface:
		in.watchCollect(label, x.V, seen, depth+1)
	case *MapObj:
		if x == nil || seen[x] {
			return
		}
		seen[x] = true
		for i := range x.vals {
			if x.alive[i] {
				cell(&x.vals[i])
			}
		}
	}
}

// watchedStore is called before *p = nv for a watched cell.
func (in *Interp) watchedStore(label string, p *Value, nv Value) {
	old, ok1 := (*p).(*term.Term)
	nw, ok2 := nv.(*term.Term)
	if !ok1 || !ok2 || old == nw {
		return
	}
	if old.Sort != nw.Sort {
		return
	}
	var same *term.Term
	if old.Sort.K == term.KFloat {
		same = term.FSameBits(old, nw)
	} else {
		same = term.Eq(old, nw)
	}
	in.res.Notes["watched-stores"]++
	if same.IsConst() && same.BoolV() {
		// the stored value is the old value (after simplification): counted, not
		// recorded one by one (an in-place algorithm performs millions of these)
		in.res.Notes["watched-stores-same-value"]++
		return
	}
	in.assert(label, same)
}

// Definedness obligations (real interpretation, VerifDefinedAs(label)): while a
// label is set, every float division raises "not 0/0" and every square root
// "argument >= 0" as proof obligations instead of assuming them. Over the reals
// (no overflow) these are exactly the operations whose IEEE result is NaN, so
// "the result is never NaN" for a rational kernel reduces to them. NaN from
// overflow (Inf - Inf, 0 * Inf, Inf / Inf) is outside this reading.
func (in *Interp) definedDiv(a, b *term.Term) {
	if in.definedLabel == "" || in.job.Mode != "real" || in.concrete {
		return
	}
	zero := term.FloatC(a.Sort, 0)
	in.assert(in.definedLabel, term.Not(term.And(term.Feq(a, zero), term.Feq(b, zero))))
}

func (in *Interp) definedSqrt(x *term.Term) {
	if in.definedLabel == "" || in.job.Mode != "real" || in.concrete {
		return
	}
	in.assert(in.definedLabel, term.Fle(term.FloatC(x.Sort, 0), x))
}
