package exec

import (
	"fmt"
	"go/types"
	"math"
	"os"
	"sort"
	"strings"
	"time"

	"golang.org/x/tools/go/packages"
	"golang.org/x/tools/go/ssa"
	"golang.org/x/tools/go/ssa/ssautil"

	"verif/engine/smt"
	"verif/engine/term"
)

type Config struct {
	MaxSteps     int
	MaxDepth     int
	MaxDecisions int
	MaxPaths     int
	FeasCapMs    int
	OblCapMs     int
	PreciseCapMs int
}

func DefaultConfig() Config {
	return Config{MaxSteps: 3_000_000, MaxDepth: 400, MaxDecisions: 400, MaxPaths: 20000,
		FeasCapMs: 3000, OblCapMs: 20000, PreciseCapMs: 8000}
}

type Decision struct {
	Val    int   // branch taken: 1 true, 0 false
	Pick   int64 // candidate value for concretisation decisions
	Forced bool
}

// Job is one harness instance: entry function, concrete arguments, modes.
type Job struct {
	Pkg     string  `json:"pkg"`  // package path hosting the harness function
	Func    string  `json:"func"` // harness function name
	Args    []int64 `json:"args"` // concrete int arguments (configuration)
	Mode    string  `json:"mode"` // "fp" | "real"
	IntMode string  `json:"intmode"`
	// AllowPanic: an uncaught panic of the harness is a normal outcome, not a
	// candidate violation.
	AllowPanic bool   `json:"allow_panic"`
	Tag        string `json:"tag"` // free text copied to the result (configuration description)
	MaxPaths   int    `json:"max_paths"`
	MaxSteps   int    `json:"max_steps"`
	OblCapMs   int    `json:"obl_cap_ms"`
	MaxWallMs  int    `json:"max_wall_ms"`
	// PreciseFeas: decide branch feasibility bit-precisely instead of with the
	// UF abstraction of float arithmetic (fewer spurious paths, dearer queries)
	PreciseFeas bool `json:"precise_feas"`
	// SummariseLogAdd (real mode): LogAdd(a,b) is replaced by its summary log(exp a + exp b)
	// (discharged against the bodies by the C02 check), so the branch a > b does not fork
	SummariseLogAdd bool `json:"summarise_logadd"`
	// BFS: explore pending prefixes first-in first-out (shallow paths first)
	BFS      bool              `json:"bfs"`
	Concrete map[string]string `json:"concrete"` // self-test: variable values, no symbols
	// Follow (concolic order): a seed; at every two-sided branch the side that a
	// concrete run on inputs derived from the seed would take is explored first
	// (the state stays symbolic). Depth-first search then dives along a
	// realistic run, e.g. through a convergence loop, instead of along the
	// first-listed sides.
	Follow string `json:"follow,omitempty"`
	// Terminates (with Follow): the followed run must end within the step
	// bound; if it does not, a counterexample with this label and the followed
	// inputs is reported (the native replay confirms it by timing out)
	Terminates string `json:"terminates,omitempty"`
	// Bounded: every VerifFinite input is zero or of a magnitude in [2^-100, 2^100]
	// (float32: [2^-30, 2^30]), so that no intermediate of a single operation
	// overflows or underflows; stated as part of the claim
	Bounded bool `json:"bounded,omitempty"`
}

type Obligation struct {
	Label  string            `json:"label"`
	Status string            `json:"status"` // closed | discharged | candidate | inconclusive
	Tier   string            `json:"tier,omitempty"`
	Solver string            `json:"solver,omitempty"`
	Ms     int64             `json:"ms"`
	Model  map[string]string `json:"model,omitempty"`
	UF     []smt.UFValue     `json:"uf,omitempty"`   // points of harness-level uninterpreted functions in the model
	Weak   bool              `json:"weak,omitempty"` // model from an abstraction (uf tier / UF heads)
	Note   string            `json:"note,omitempty"`
	Path   int               `json:"path"`
	SMT    string            `json:"smt,omitempty"`
}

type PathRes struct {
	ID        int      `json:"id"`
	Decisions string   `json:"decisions"`
	Outcome   string   `json:"outcome"`
	Msg       string   `json:"msg,omitempty"`
	Steps     int      `json:"steps"`
	Reach     []string `json:"reach,omitempty"`
	NObl      int      `json:"nobl"`
	Trace     []string `json:"trace,omitempty"`
}

type JobRes struct {
	Job         Job              `json:"job"`
	Paths       []PathRes        `json:"paths"`
	Obligations []Obligation     `json:"obligations"`
	Closed      int              `json:"closed"` // obligations closed syntactically (not listed)
	Forks       int              `json:"forks"`
	Funcs       map[string]int   `json:"funcs"`
	ReachSeen   map[string]int   `json:"reach_seen"`
	ReachWanted []string         `json:"reach_wanted,omitempty"`
	Stubs       map[string]int   `json:"stubs"`
	Notes       map[string]int64 `json:"notes,omitempty"`
	Truncated   bool             `json:"truncated"`
	WallMs      int64            `json:"wall_ms"`
	SolverMs    int64            `json:"solver_ms"`
	Queries     int              `json:"queries"`
	CacheHits   int              `json:"cache_hits"`
	Samples     []string         `json:"samples,omitempty"`
}

type Interp struct {
	cfg           Config
	prog          *ssa.Program
	pkgs          map[string]*ssa.Package
	repoMod       string
	globals       map[*ssa.Global]*Value
	frozen        map[*Value]bool
	rtypes        map[string]*RType
	rtypeT        types.Type
	errorT        types.Type
	specialBodies map[string]bool

	// solver processes
	procs map[string]*smt.Proc

	// per job
	job       Job
	work      [][]Decision
	forks     int
	funcsSeen map[string]int
	stubsSeen map[string]int
	res       *JobRes
	feasCache map[string]bool
	models    []map[string]term.Val // recent models of path conditions (counterexample cache)
	cacheHits int
	union     map[string]term.Val
	varsOf    map[int][]string
	oblCache  map[string]Obligation
	pcModels  map[string]pcModel
	oblHits   int
	solverDur time.Duration
	queries   int

	// per path
	prefix        []Decision
	decisions     []Decision
	pc            []*term.Term
	pcSet         map[int]bool
	facts         map[int][]*term.Term
	expAtoms      []*term.Term      // E(.) atoms of the current path (pairwise inverse lemma)
	watch         map[*Value]string // watched scalar cells -> obligation label (watch.go)
	definedLabel  string            // label of definedness obligations (watch.go), "" = off
	followEnv     map[string]term.Val
	followChecked int
	followMemo    map[int]term.Val
	steps         int
	depth         int
	curInstr      ssa.Instruction
	varCount      map[string]int
	pathID        int
	reach         []string
	nobl          int
	concrete      bool
	trace         []string
	inputs        []*term.Term
	deadline      time.Time
	poolThreads   int
	poolGroups    int
	poolJobs      []*poolJobLog
	curJob        *poolJobLog
	poolErf       *ssa.Function
	marshalDepth  int
	unmarshalTop  map[*Value]int
}

// Load builds SSA for the module rooted at dir with overlay files injected.
func Load(dir string, overlay map[string][]byte, patterns []string, cfg Config) (*Interp, error) {
	pcfg := &packages.Config{
		Mode:    packages.LoadAllSyntax | packages.NeedModule,
		Dir:     dir,
		Overlay: overlay,
		Env:     append(os.Environ(), "GOFLAGS=-mod=mod", "GOPROXY=off", "GOSUMDB=off", "GOTOOLCHAIN=local"),
	}
	initial, err := packages.Load(pcfg, patterns...)
	if err != nil {
		return nil, err
	}
	var errs []string
	packages.Visit(initial, nil, func(p *packages.Package) {
		for _, e := range p.Errors {
			errs = append(errs, e.Error())
		}
	})
	if len(errs) > 0 {
		return nil, fmt.Errorf("package errors:\n%s", strings.Join(errs, "\n"))
	}
	prog, _ := ssautil.AllPackages(initial, ssa.InstantiateGenerics)
	prog.Build()
	in := &Interp{cfg: cfg, prog: prog, pkgs: map[string]*ssa.Package{}, globals: map[*ssa.Global]*Value{},
		rtypes: map[string]*RType{}, procs: map[string]*smt.Proc{}}
	for _, p := range prog.AllPackages() {
		in.pkgs[p.Pkg.Path()] = p
	}
	if len(initial) > 0 && initial[0].Module != nil {
		in.repoMod = initial[0].Module.Path
	}
	in.rtypeT = types.NewNamed(types.NewTypeName(0, nil, "verif.rtype", nil), types.NewStruct(nil, nil), nil)
	in.errorT = types.NewNamed(types.NewTypeName(0, nil, "verif.error", nil), types.NewStruct(nil, nil), nil)
	return in, nil
}

// SpecialBody marks a special.* function whose body is the subject of a check.
func (in *Interp) SpecialBody(name string) {
	if in.specialBodies == nil {
		in.specialBodies = map[string]bool{}
	}
	in.specialBodies[name] = true
}

func (in *Interp) isRepoPkg(p *ssa.Package) bool {
	if p == nil {
		return false
	}
	path := p.Pkg.Path()
	return path == in.repoMod || strings.HasPrefix(path, in.repoMod+"/")
}

// RunInits executes the repo packages' init functions (dependencies first).
func (in *Interp) RunInits() (err error) {
	in.concrete = true
	in.pcSet = map[int]bool{}
	in.varCount = map[string]int{}
	in.facts = map[int][]*term.Term{}
	in.funcsSeen = nil
	in.unmarshalTop = map[*Value]int{}
	in.stubsSeen = map[string]int{}
	defer func() {
		in.concrete = false
		if r := recover(); r != nil {
			err = fmt.Errorf("init failed: %v%s", r, in.where())
			if os.Getenv("SYMGO_DEBUG") != "" {
				panic(r)
			}
		}
	}()
	done := map[*ssa.Package]bool{}
	var visit func(p *ssa.Package)
	visit = func(p *ssa.Package) {
		if done[p] {
			return
		}
		done[p] = true
		for _, imp := range p.Pkg.Imports() {
			if ip := in.prog.Package(imp); ip != nil && in.isRepoPkg(ip) {
				visit(ip)
			}
		}
		if f := p.Func("init"); f != nil {
			in.steps = 0
			in.callSSA(f, nil, nil)
		}
	}
	var paths []string
	for path, p := range in.pkgs {
		if in.isRepoPkg(p) {
			paths = append(paths, path)
		}
	}
	sort.Strings(paths)
	for _, path := range paths {
		visit(in.pkgs[path])
	}
	in.frozen = map[*Value]bool{}
	for _, p := range in.globals {
		in.frozen[p] = true
	}
	return nil
}

func (in *Interp) proc(kind string, capMs int) *smt.Proc {
	k := fmt.Sprintf("%s/%d", kind, capMs)
	if p, ok := in.procs[k]; ok {
		return p
	}
	p := smt.NewProc(kind, capMs)
	in.procs[k] = p
	return p
}

func (in *Interp) Close() {
	for _, p := range in.procs {
		p.Kill()
	}
}

// ---------------------------------------------------------------------------
// modes

func (in *Interp) feasMode() smt.Mode {
	im := in.job.IntMode
	if im == "" {
		im = "bv"
	}
	if in.job.Mode == "real" {
		return smt.Mode{Float: "real", Int: "int", Lift: true}
	}
	return smt.Mode{Float: "fpuf", Int: im}
}

func (in *Interp) preciseMode() smt.Mode {
	im := in.job.IntMode
	if im == "" {
		im = "bv"
	}
	if in.job.Mode == "real" {
		return smt.Mode{Float: "real", Int: "int", Lift: true}
	}
	return smt.Mode{Float: "fp", Int: im}
}

// intSolver picks the solver for float-free queries: z3 4.8.12 is fastest on
// linear integer / BV queries but answers unknown on nonlinear Int ones that
// z3 5.1.0 decides at once (measured on the matrix-header obligations).
func intSolver(ts []*term.Term) string {
	for _, t := range term.Topo(ts...) {
		switch t.Op {
		case "mul":
			if !t.Args[0].IsConst() && !t.Args[1].IsConst() {
				return "z3-new"
			}
		case "div", "rem":
			return "z3-new"
		}
	}
	return "z3"
}

func hasFloat(ts []*term.Term) bool {
	for _, t := range term.Topo(ts...) {
		if t.Sort.K == term.KFloat {
			return true
		}
	}
	return false
}

func (in *Interp) withFacts(asserts []*term.Term) []*term.Term {
	if len(in.facts) == 0 {
		return asserts
	}
	out := append([]*term.Term{}, asserts...)
	seenFact := map[int]bool{}
	for round := 0; round < 3; round++ {
		added := false
		for _, t := range term.Topo(out...) {
			for _, f := range in.facts[t.ID] {
				if !seenFact[f.ID] {
					seenFact[f.ID] = true
					out = append(out, f)
					added = true
				}
			}
		}
		if !added {
			break
		}
	}
	return out
}

func (in *Interp) account(r smt.Result) {
	in.solverDur += r.Dur
	in.queries++
}

func (in *Interp) overBudget() bool {
	return !in.deadline.IsZero() && time.Now().After(in.deadline)
}

// feasible asks whether pc ∧ c has a model (unknown counts as feasible).
func (in *Interp) feasible(c *term.Term) bool {
	if in.overBudget() {
		panic(pathEnd{"unwind", "job wall-clock budget exhausted"})
	}
	if c.IsConst() {
		return c.BoolV()
	}
	if in.pcSet[c.ID] {
		return true
	}
	if in.pcSet[term.Not(c).ID] {
		return false
	}
	// constraint independence: only the conjuncts that share variables
	// (transitively) with c can affect its feasibility, given that pc itself
	// is feasible
	rel := in.relevantPC(c)
	ids := make([]int, 0, len(rel)+1)
	for _, t := range rel {
		ids = append(ids, t.ID)
	}
	sort.Ints(ids)
	key := fmt.Sprint(ids, c.ID)
	if v, ok := in.feasCache[key]; ok {
		return v
	}
	asserts := in.withFacts(append(rel, c))
	// counterexample cache: the union of recent models (latest value per
	// variable), then individual recent models
	if in.union != nil && in.satisfies(in.union, asserts) {
		in.cacheHits++
		in.feasCache[key] = true
		return true
	}
	for i := len(in.models) - 1; i >= 0 && i >= len(in.models)-8; i-- {
		if in.satisfies(in.models[i], asserts) {
			in.cacheHits++
			in.feasCache[key] = true
			return true
		}
	}
	fm := in.feasMode()
	if in.job.PreciseFeas {
		fm = in.preciseMode()
	}
	sc := smt.Build(fm, asserts)
	kind := intSolver(asserts)
	if in.job.Mode != "real" && hasFloat(asserts) {
		kind = "cvc5"
	}
	r := in.proc(kind, in.cfg.FeasCapMs).Check(sc, true)
	in.account(r)
	if r.Status == "sat" && r.Model != nil {
		if m := in.valModel(r.Model, sc); m != nil {
			if in.union == nil {
				in.union = map[string]term.Val{}
			}
			for k, v := range m {
				in.union[k] = v
			}
			in.models = append(in.models, m)
			if len(in.models) > 64 {
				in.models = in.models[32:]
			}
		}
	}
	v := r.Status != "unsat"
	in.feasCache[key] = v
	return v
}

// termVars returns the sorted ids of variables and UF applications (treated as
// shared symbols by name) under t.
func (in *Interp) termVars(t *term.Term) []string {
	if v, ok := in.varsOf[t.ID]; ok {
		return v
	}
	set := map[string]bool{}
	for _, x := range term.Topo(t) {
		switch x.Op {
		case "var":
			set[x.Name] = true
		case "uf":
			set["uf:"+x.Name] = true
		}
	}
	var out []string
	for k := range set {
		out = append(out, k)
	}
	sort.Strings(out)
	if in.varsOf == nil {
		in.varsOf = map[int][]string{}
	}
	in.varsOf[t.ID] = out
	return out
}

func (in *Interp) relevantPC(c *term.Term) []*term.Term {
	need := map[string]bool{}
	for _, v := range in.termVars(c) {
		need[v] = true
	}
	// facts attached to UF nodes may mention further variables
	used := make([]bool, len(in.pc))
	var out []*term.Term
	for changed := true; changed; {
		changed = false
		for i, t := range in.pc {
			if used[i] {
				continue
			}
			vs := in.termVars(t)
			hit := false
			for _, v := range vs {
				if need[v] {
					hit = true
					break
				}
			}
			if hit {
				used[i] = true
				changed = true
				out = append(out, t)
				for _, v := range vs {
					need[v] = true
				}
			}
		}
	}
	return out
}

// feasiblePrecise: pc ∧ c has a model in the precise interpretation (used
// before assuming a failed assertion in order to continue the path).
func (in *Interp) feasiblePrecise(c *term.Term) bool {
	if in.job.Mode == "real" {
		return true
	}
	rel := in.relevantPC(c)
	asserts := in.withFacts(append(rel, c))
	if !hasFloat(asserts) {
		return true // feasible() was already precise
	}
	sc := smt.Build(in.preciseMode(), asserts)
	r := in.proc("cvc5", in.cfg.FeasCapMs).Check(sc, false)
	in.account(r)
	return r.Status == "sat"
}

// searchWitness looks for input values under which every assert evaluates to
// true in exact arithmetic, starting from the model m.
func (in *Interp) searchWitness(asserts []*term.Term, sc *smt.Script, m map[string]term.Val) map[string]term.Val {
	if in.satisfies(m, asserts) {
		return m
	}
	pool := []float64{0.5, 1.5, -1.5, 2, 3, -2, 0.25, 7, 25, -25, 1, -1, 19.5, -40, 0.125, 100}
	seed := uint64(88172645463325252) ^ uint64(len(asserts))*1099511628211
	next := func() uint64 { seed ^= seed << 13; seed ^= seed >> 7; seed ^= seed << 17; return seed }
	for attempt := 0; attempt < 48; attempt++ {
		w := map[string]term.Val{}
		for k, v := range m {
			w[k] = v
		}
		for _, v := range sc.Vars {
			if v.Sort.K != term.KFloat {
				continue
			}
			r := next()
			var x float64
			if r&1 == 0 {
				x = pool[(r>>8)%uint64(len(pool))]
			} else {
				x = float64(int64((r>>8)%6001)-3000) / 1000
			}
			if v.Sort.Bits == 32 {
				x = float64(float32(x))
			}
			w[v.Name] = term.Val{F: x}
		}
		if in.satisfies(w, asserts) {
			return w
		}
	}
	return nil
}

func (in *Interp) encodeVals(w map[string]term.Val, sc *smt.Script) map[string]string {
	out := map[string]string{}
	for _, v := range sc.Vars {
		val, ok := w[v.Name]
		if !ok {
			continue
		}
		switch v.Sort.K {
		case term.KBool:
			out[v.Name] = fmt.Sprint(val.B)
		case term.KInt:
			out[v.Name] = fmt.Sprint(term.UintC(v.Sort, val.I).Int())
		default:
			out[v.Name] = fmt.Sprintf("f:%x", math.Float64bits(val.F))
		}
	}
	return out
}

func (in *Interp) satisfies(m map[string]term.Val, asserts []*term.Term) bool {
	memo := map[int]term.Val{}
	for _, a := range asserts {
		v, ok := term.Eval(a, m, memo)
		if !ok || !v.B {
			return false
		}
	}
	return true
}

// valModel turns a raw solver model into evaluator values (nil if any value
// cannot be read exactly).
func (in *Interp) valModel(raw map[string]string, sc *smt.Script) map[string]term.Val {
	m := map[string]term.Val{}
	for _, v := range sc.Vars {
		rv, ok := raw[v.Name]
		if !ok {
			return nil
		}
		switch v.Sort.K {
		case term.KBool:
			m[v.Name] = term.Val{B: strings.TrimSpace(rv) == "true"}
		case term.KInt:
			if sc.Mode.Int == "int" {
				n, ok := smt.ParseInt(rv)
				if !ok {
					return nil
				}
				m[v.Name] = term.Val{I: uint64(n)}
			} else {
				u, ok := smt.ParseBits(rv)
				if !ok {
					return nil
				}
				m[v.Name] = term.Val{I: term.UintC(v.Sort, u).C}
			}
		default:
			if sc.Mode.Float == "real" {
				return nil // rationals are not floats: no evaluator shortcut
			}
			u, ok := smt.ParseBits(rv)
			if !ok {
				return nil
			}
			if v.Sort.Bits == 32 {
				m[v.Name] = term.Val{F: float64(math.Float32frombits(uint32(u)))}
			} else {
				m[v.Name] = term.Val{F: math.Float64frombits(u)}
			}
		}
	}
	return m
}

// modelValue returns a value of int term t consistent with the path condition.
func (in *Interp) modelValue(t *term.Term) (int64, bool) {
	pick := term.Var(t.Sort, fmt.Sprintf("pick!%d", t.ID))
	eq := term.Eq(pick, t)
	asserts := in.withFacts(append(in.relevantPC(eq), eq))
	sc := smt.Build(in.feasMode(), asserts)
	kind := intSolver(asserts)
	if in.job.Mode != "real" && hasFloat(asserts) {
		kind = "cvc5"
	}
	r := in.proc(kind, in.cfg.OblCapMs).Check(sc, true)
	in.account(r)
	if r.Status != "sat" {
		return 0, false
	}
	raw, ok := r.Model[pick.Name]
	if !ok {
		return 0, false
	}
	if in.feasMode().Int == "int" {
		return smt.ParseInt(raw)
	}
	u, ok := smt.ParseBits(raw)
	if !ok {
		return 0, false
	}
	return term.UintC(t.Sort, u).Int(), true
}

func (in *Interp) decodeModel(raw map[string]string, mode smt.Mode) map[string]string {
	out := map[string]string{}
	for _, v := range in.inputs {
		rv, ok := raw[v.Name]
		if !ok {
			continue
		}
		switch v.Sort.K {
		case term.KBool:
			out[v.Name] = strings.TrimSpace(rv)
		case term.KInt:
			if mode.Int == "int" {
				if n, ok := smt.ParseInt(rv); ok {
					out[v.Name] = fmt.Sprint(n)
				}
			} else if u, ok := smt.ParseBits(rv); ok {
				out[v.Name] = fmt.Sprint(term.UintC(v.Sort, u).Int())
			}
		default:
			if mode.Float == "real" {
				if f, ok := smt.ParseReal(rv); ok {
					out[v.Name] = fmt.Sprintf("f:%x", math.Float64bits(f))
				}
			} else if u, ok := smt.ParseBits(rv); ok {
				if v.Sort.Bits == 32 {
					out[v.Name] = fmt.Sprintf("f:%x", math.Float64bits(float64(math.Float32frombits(uint32(u)))))
				} else {
					out[v.Name] = fmt.Sprintf("f:%x", u)
				}
			}
		}
	}
	return out
}

// check decides one proof obligation: pc ∧ facts ⟹ cond. Only the conjuncts of
// the path condition that share variables with cond are sent (the rest is
// satisfiable on its own because the path is feasible); verdicts are cached
// per (slice, cond) so sibling paths do not repeat a query.
func (in *Interp) check(label string, cond *term.Term) Obligation {
	ob := Obligation{Label: label, Path: in.pathID}
	if cond.IsConst() && cond.BoolV() {
		ob.Status = "closed"
		return ob
	}
	if in.concrete {
		ob.Status = "candidate"
		ob.Note = "concrete evaluation false"
		return ob
	}
	if in.overBudget() {
		ob.Status = "inconclusive"
		ob.Note = "job wall-clock budget exhausted"
		return ob
	}
	neg := term.Not(cond)
	if in.followEnv != nil && in.job.Mode != "real" {
		// concolic witness: the followed concrete valuation satisfies the path
		// condition (on the path it steered) and falsifies the assertion: an
		// exact counterexample, no query needed
		if v, ok := term.Eval(cond, in.followEnv, in.followMemo); ok && !v.B {
			holds := true
			for _, t := range in.pc {
				if pv, ok2 := term.Eval(t, in.followEnv, in.followMemo); !ok2 || !pv.B {
					holds = false
					break
				}
			}
			if holds {
				ob.Status, ob.Tier = "candidate", "follow-eval"
				ob.Model = map[string]string{}
				for _, iv := range in.inputs {
					val, ok3 := in.followEnv[iv.Name]
					if !ok3 {
						continue
					}
					switch iv.Sort.K {
					case term.KBool:
						ob.Model[iv.Name] = fmt.Sprint(val.B)
					case term.KInt:
						ob.Model[iv.Name] = fmt.Sprint(term.UintC(iv.Sort, val.I).Int())
					default:
						ob.Model[iv.Name] = fmt.Sprintf("f:%x", math.Float64bits(val.F))
					}
				}
				return ob
			}
		}
	}
	rel := in.relevantPC(neg)
	ids := make([]int, 0, len(rel)+1)
	relSet := map[int]bool{}
	for _, t := range rel {
		ids = append(ids, t.ID)
		relSet[t.ID] = true
	}
	sort.Ints(ids)
	key := fmt.Sprint(ids, neg.ID)
	cached, hit := in.oblCache[key]
	if !hit {
		cached = in.checkSlice(rel, neg)
		in.oblCache[key] = cached
	} else {
		in.oblHits++
	}
	ob.Status, ob.Tier, ob.Solver, ob.Ms, ob.Weak, ob.Note = cached.Status, cached.Tier, cached.Solver, cached.Ms, cached.Weak, cached.Note
	ob.UF = cached.UF
	if hit {
		ob.Ms = 0
	}
	if cached.Status == "candidate" {
		// complete the model with values for the rest of the path condition
		ob.Model = map[string]string{}
		var rest []*term.Term
		for _, t := range in.pc {
			if !relSet[t.ID] {
				rest = append(rest, t)
			}
		}
		if len(rest) > 0 {
			save := in.pc
			in.pc = rest
			m, weak, why := in.modelOfPC()
			in.pc = save
			if m == nil {
				if why == "unsat" {
					// the path itself is infeasible in the precise theory (it was
					// explored because feasibility uses the UF abstraction):
					// the implication holds vacuously
					ob.Status = "discharged"
					ob.Tier = "fp-path-infeasible"
					ob.Model = nil
					return ob
				}
				ob.Status = "inconclusive"
				ob.Note = "no model for the independent part of the path condition: " + why
				return ob
			}
			ob.Weak = ob.Weak || weak
			for k, v := range m {
				ob.Model[k] = v
			}
		}
		for k, v := range cached.Model {
			ob.Model[k] = v
		}
	}
	return ob
}

func (in *Interp) checkSlice(rel []*term.Term, neg *term.Term) Obligation {
	ob := Obligation{}
	t0 := time.Now()
	asserts := in.withFacts(append(append([]*term.Term{}, rel...), neg))
	oblCap := in.cfg.OblCapMs
	if in.job.OblCapMs > 0 {
		oblCap = in.job.OblCapMs
	}
	defer func() { ob.Ms = time.Since(t0).Milliseconds() }()
	if in.job.Mode == "real" {
		sc := smt.Build(in.preciseMode(), asserts)
		ob.Tier = "real"
		r := in.raceReal(sc, oblCap)
		ob.Solver = r.Solver
		switch r.Status {
		case "unsat":
			ob.Status = "discharged"
		case "sat":
			ob.Status = "candidate"
			ob.Weak = true // reals, not floats: must reproduce natively with tolerance
			ob.Model = in.decodeModel(r.Model, sc.Mode)
			ob.UF = r.UF
		default:
			ob.Status = "inconclusive"
			ob.Note = r.Note
		}
		if len(in.res.Samples) < 3 {
			in.res.Samples = append(in.res.Samples, firstN(sc.Text, 1500))
		}
		return ob
	}
	floaty := hasFloat(asserts)
	if !floaty {
		sc := smt.Build(in.preciseMode(), asserts)
		r := in.proc(intSolver(asserts), oblCap).Check(sc, true)
		in.account(r)
		if r.Status == "unknown" {
			for _, alt := range []string{"z3-new", "z3", "cvc5"} {
				if alt == r.Solver {
					continue
				}
				r2 := in.proc(alt, oblCap).Check(sc, true)
				in.account(r2)
				if r2.Status != "unknown" {
					r = r2
					break
				}
			}
		}
		ob.Tier, ob.Solver = "int", r.Solver
		switch r.Status {
		case "unsat":
			ob.Status = "discharged"
		case "sat":
			ob.Status = "candidate"
			ob.Model = in.decodeModel(r.Model, sc.Mode)
		default:
			ob.Status = "inconclusive"
			ob.Note = r.Note
		}
		if len(in.res.Samples) < 3 {
			in.res.Samples = append(in.res.Samples, firstN(sc.Text, 1500))
		}
		return ob
	}
	// cheap refutation first: exact evaluation (IEEE arithmetic, Go's libm) of
	// recent solver models of this path and of perturbations of their float
	// inputs. A point that satisfies the path slice and falsifies the assertion
	// is a bit-precise counterexample; it only short-cuts a "sat" verdict, the
	// "holds" verdicts below always come from the solver.
	scU := smt.Build(in.feasMode(), asserts)
	if !term.HasUFOtherThanMath(asserts...) {
		seedM := map[string]term.Val{}
		for i := len(in.models) - 1; i >= 0 && i >= len(in.models)-4; i-- {
			for k, v := range in.models[i] {
				if _, ok := seedM[k]; !ok {
					seedM[k] = v
				}
			}
		}
		complete := true
		for _, v := range scU.Vars {
			if _, ok := seedM[v.Name]; !ok {
				if v.Sort.K == term.KFloat {
					seedM[v.Name] = term.Val{F: 1.5}
				} else {
					complete = false
				}
			}
		}
		if complete {
			if w := in.searchWitness(asserts, scU, seedM); w != nil {
				ob.Status, ob.Tier = "candidate", "fp-eval"
				ob.Model = in.encodeVals(w, scU)
				return ob
			}
		}
	}
	// UF-first tier
	rU := in.proc("cvc5", oblCap).Check(scU, true)
	in.account(rU)
	ob.Tier, ob.Solver = "fpuf", rU.Solver
	if len(in.res.Samples) < 3 {
		in.res.Samples = append(in.res.Samples, firstN(scU.Text, 1500))
	}
	if rU.Status == "unsat" {
		ob.Status = "discharged"
		return ob
	}
	// exact evaluation of the UF-tier model (and of perturbations of its float
	// inputs) with IEEE arithmetic and Go's libm: a point that satisfies the
	// path slice and falsifies the assertion is a bit-precise counterexample
	if rU.Status == "sat" {
		if m := in.valModel(rU.Model, scU); m != nil {
			if w := in.searchWitness(asserts, scU, m); w != nil {
				ob.Status, ob.Tier = "candidate", "fp-eval"
				ob.Model = in.encodeVals(w, scU)
				return ob
			}
		}
	}
	// bit-precise tier
	scP := smt.Build(in.preciseMode(), asserts)
	rP := in.proc("cvc5", in.cfg.PreciseCapMs).Check(scP, true)
	in.account(rP)
	switch rP.Status {
	case "unsat":
		ob.Status, ob.Tier = "discharged", "fp"
	case "sat":
		ob.Status, ob.Tier = "candidate", "fp"
		ob.Model = in.decodeModel(rP.Model, scP.Mode)
		ob.UF = rP.UF
		ob.Weak = term.HasUF(asserts...)
	default:
		if rU.Status == "sat" {
			ob.Status, ob.Tier = "candidate", "fpuf"
			ob.Weak = true
			ob.Model = in.decodeModel(rU.Model, scU.Mode)
			ob.UF = rU.UF
			ob.Note = "bit-precise tier: " + rP.Note
		} else {
			ob.Status = "inconclusive"
			ob.Note = "uf: " + rU.Note + "; fp: " + rP.Note
		}
	}
	return ob
}

func firstN(s string, n int) string {
	if len(s) > n {
		return s[:n] + "..."
	}
	return s
}

// raceReal runs z3 4.8.12 and z3 5.1.0 non-incrementally; first definitive
// answer wins.
func (in *Interp) raceReal(sc *smt.Script, capMs int) smt.Result {
	ch := make(chan smt.Result, 2)
	for _, k := range []string{"z3-new", "z3"} {
		go func(k string) { ch <- smt.OneShot(k, sc, capMs, true) }(k)
	}
	var first smt.Result
	for i := 0; i < 2; i++ {
		r := <-ch
		in.account(r)
		if r.Status == "sat" || r.Status == "unsat" {
			return r
		}
		first = r
	}
	return first
}

// modelOfPC returns input values satisfying the current path condition.
type pcModel struct {
	m    map[string]string
	weak bool
	why  string
}

// modelOfPC returns input values satisfying the current path condition. The
// condition is split into variable-disjoint components that are solved (and
// cached) separately.
func (in *Interp) modelOfPC() (map[string]string, bool, string) {
	out := map[string]string{}
	weak := false
	for _, comp := range in.components(in.pc) {
		ids := make([]int, 0, len(comp))
		for _, t := range comp {
			ids = append(ids, t.ID)
		}
		sort.Ints(ids)
		key := fmt.Sprint(ids)
		c, ok := in.pcModels[key]
		if !ok {
			save := in.pc
			in.pc = comp
			m, w, why := in.modelOfPC1()
			in.pc = save
			c = pcModel{m, w, why}
			in.pcModels[key] = c
		}
		if c.m == nil {
			return nil, false, c.why
		}
		weak = weak || c.weak
		for k, v := range c.m {
			out[k] = v
		}
	}
	return out, weak, ""
}

// components partitions conjuncts into groups that share no variables.
func (in *Interp) components(conj []*term.Term) [][]*term.Term {
	parent := map[string]string{}
	var find func(x string) string
	find = func(x string) string {
		if p, ok := parent[x]; ok && p != x {
			r := find(p)
			parent[x] = r
			return r
		}
		parent[x] = x
		return x
	}
	for _, t := range conj {
		vs := in.termVars(t)
		for i := 1; i < len(vs); i++ {
			a, b := find(vs[0]), find(vs[i])
			if a != b {
				parent[a] = b
			}
		}
	}
	groups := map[string][]*term.Term{}
	var order []string
	for _, t := range conj {
		vs := in.termVars(t)
		k := "$const"
		if len(vs) > 0 {
			k = find(vs[0])
		}
		if _, ok := groups[k]; !ok {
			order = append(order, k)
		}
		groups[k] = append(groups[k], t)
	}
	var out [][]*term.Term
	for _, k := range order {
		out = append(out, groups[k])
	}
	return out
}

func (in *Interp) modelOfPC1() (map[string]string, bool, string) {
	asserts := in.withFacts(append([]*term.Term{}, in.pc...))
	if len(asserts) == 0 {
		return map[string]string{}, false, ""
	}
	if in.job.Mode == "real" {
		sc := smt.Build(in.preciseMode(), asserts)
		r := in.raceReal(sc, in.cfg.OblCapMs)
		if r.Status == "sat" {
			return in.decodeModel(r.Model, sc.Mode), true, ""
		}
		return nil, false, r.Status + " " + r.Note
	}
	if !hasFloat(asserts) {
		sc := smt.Build(in.preciseMode(), asserts)
		r := in.proc(intSolver(asserts), in.cfg.OblCapMs).Check(sc, true)
		in.account(r)
		if r.Status == "sat" {
			return in.decodeModel(r.Model, sc.Mode), false, ""
		}
		return nil, false, r.Status + " " + r.Note
	}
	scP := smt.Build(in.preciseMode(), asserts)
	r := in.proc("cvc5", in.cfg.PreciseCapMs).Check(scP, true)
	in.account(r)
	if r.Status == "sat" {
		return in.decodeModel(r.Model, scP.Mode), term.HasUF(asserts...), ""
	}
	if r.Status == "unsat" {
		return nil, false, "unsat"
	}
	scU := smt.Build(in.feasMode(), asserts)
	rU := in.proc("cvc5", in.cfg.OblCapMs).Check(scU, true)
	in.account(rU)
	if rU.Status == "sat" {
		return in.decodeModel(rU.Model, scU.Mode), true, ""
	}
	return nil, false, rU.Status + " " + rU.Note
}

// ---------------------------------------------------------------------------
// exploration

func (in *Interp) RunJob(job Job) *JobRes {
	t0 := time.Now()
	in.job = job
	if in.job.Mode == "" {
		in.job.Mode = "fp"
	}
	term.RealSimplify = in.job.Mode == "real"
	res := &JobRes{Job: job, Funcs: map[string]int{}, ReachSeen: map[string]int{}, Stubs: map[string]int{}, Notes: map[string]int64{}}
	in.res = res
	in.funcsSeen = res.Funcs
	in.stubsSeen = res.Stubs
	in.feasCache = map[string]bool{}
	in.oblCache = map[string]Obligation{}
	in.pcModels = map[string]pcModel{}
	in.oblHits = 0
	in.models = nil
	in.union = nil
	in.cacheHits = 0
	in.work = [][]Decision{{}}
	in.forks = 0
	in.solverDur = 0
	in.queries = 0
	in.concrete = job.Concrete != nil
	pkg := in.pkgs[job.Pkg]
	if pkg == nil {
		res.Paths = append(res.Paths, PathRes{Outcome: "unsupported", Msg: "no package " + job.Pkg})
		return res
	}
	fn := pkg.Func(job.Func)
	if fn == nil {
		res.Paths = append(res.Paths, PathRes{Outcome: "unsupported", Msg: "no function " + job.Func})
		return res
	}
	var args []Value
	for i, a := range job.Args {
		if i < len(fn.Params) {
			args = append(args, term.IntC(term.I64, a))
		}
	}
	if len(args) != len(fn.Params) {
		res.Paths = append(res.Paths, PathRes{Outcome: "unsupported", Msg: "argument count mismatch"})
		return res
	}
	maxPaths := in.cfg.MaxPaths
	if job.MaxPaths > 0 {
		maxPaths = job.MaxPaths
	}
	saveSteps := in.cfg.MaxSteps
	if job.MaxSteps > 0 {
		in.cfg.MaxSteps = job.MaxSteps
	}
	defer func() { in.cfg.MaxSteps = saveSteps }()
	in.deadline = time.Time{}
	if job.MaxWallMs > 0 {
		in.deadline = t0.Add(time.Duration(job.MaxWallMs) * time.Millisecond)
	}
	id := 0
	for len(in.work) > 0 {
		if id >= maxPaths || in.overBudget() {
			res.Truncated = true
			break
		}
		var prefix []Decision
		if job.BFS {
			prefix = in.work[0]
			in.work = in.work[1:]
		} else {
			prefix = in.work[len(in.work)-1]
			in.work = in.work[:len(in.work)-1]
		}
		pr := in.runPath(fn, args, prefix, id)
		res.Paths = append(res.Paths, pr)
		if id == 0 && job.Terminates != "" && in.followEnv != nil && pr.Outcome == "unwind" &&
			(strings.HasPrefix(pr.Msg, "step bound") || strings.HasPrefix(pr.Msg, "decision bound")) && in.followHolds() {
			ob := Obligation{Label: job.Terminates, Path: id, Status: "candidate", Tier: "follow-eval",
				Note: "the followed run did not end within the bound: " + pr.Msg, Model: map[string]string{}}
			for _, iv := range in.inputs {
				if val, ok := in.followEnv[iv.Name]; ok {
					switch iv.Sort.K {
					case term.KBool:
						ob.Model[iv.Name] = fmt.Sprint(val.B)
					case term.KInt:
						ob.Model[iv.Name] = fmt.Sprint(term.UintC(iv.Sort, val.I).Int())
					default:
						ob.Model[iv.Name] = fmt.Sprintf("f:%x", math.Float64bits(val.F))
					}
				}
			}
			res.Obligations = append(res.Obligations, ob)
		}
		id++
	}
	res.Forks = in.forks
	res.WallMs = time.Since(t0).Milliseconds()
	res.SolverMs = in.solverDur.Milliseconds()
	res.Queries = in.queries
	res.CacheHits = in.cacheHits
	return res
}

func (in *Interp) runPath(fn *ssa.Function, args []Value, prefix []Decision, id int) (pr PathRes) {
	in.prefix = prefix
	in.decisions = nil
	in.pc = nil
	in.pcSet = map[int]bool{}
	in.facts = map[int][]*term.Term{}
	in.expAtoms = nil
	in.watch = nil
	in.definedLabel = ""
	in.followEnv, in.followMemo = nil, nil
	in.followChecked = 0
	if in.job.Follow != "" {
		in.followEnv, in.followMemo = map[string]term.Val{}, map[int]term.Val{}
	}
	in.steps = 0
	in.depth = 0
	in.varCount = map[string]int{}
	in.pathID = id
	in.reach = nil
	in.nobl = 0
	in.trace = nil
	in.inputs = nil
	in.marshalDepth = 0
	in.unmarshalTop = map[*Value]int{}
	in.poolThreads = 0
	in.poolGroups = 0
	in.poolJobs = nil
	in.curJob = nil
	pr.ID = id
	defer func() {
		pr.Steps = in.steps
		pr.Reach = in.reach
		pr.NObl = in.nobl
		pr.Trace = in.trace
		var sb strings.Builder
		for _, d := range in.decisions {
			if d.Forced {
				if d.Val != 0 {
					sb.WriteByte('T')
				} else {
					sb.WriteByte('F')
				}
			} else if d.Val != 0 {
				sb.WriteByte('t')
			} else {
				sb.WriteByte('f')
			}
		}
		pr.Decisions = sb.String()
		if r := recover(); r != nil {
			switch r := r.(type) {
			case execPanic:
				pr.Outcome = "panic:" + r.Class
				pr.Msg = r.Msg
				if !in.job.AllowPanic {
					in.panicObligation(r)
				}
			case pathEnd:
				pr.Outcome = r.Kind
				pr.Msg = r.What
			default:
				pr.Outcome = "engine-error"
				pr.Msg = fmt.Sprintf("%v%s", r, in.where())
				if os.Getenv("SYMGO_DEBUG") != "" {
					panic(r)
				}
			}
		}
	}()
	in.callSSA(fn, args, nil)
	pr.Outcome = "return"
	return
}

func (in *Interp) panicObligation(p execPanic) {
	ob := Obligation{Label: "uncaught-panic", Path: in.pathID, Note: p.Class + ": " + p.Msg}
	if in.concrete {
		ob.Status = "candidate"
		in.res.Obligations = append(in.res.Obligations, ob)
		return
	}
	m, weak, why := in.modelOfPC()
	if m == nil {
		if why == "unsat" {
			return // path was not feasible after all
		}
		ob.Status = "inconclusive"
		ob.Note += "; no model for path: " + why
	} else {
		ob.Status = "candidate"
		ob.Model = m
		ob.Weak = weak
	}
	in.nobl++
	in.res.Obligations = append(in.res.Obligations, ob)
}

// DebugGlobals prints package-level variables matching substr (debugging aid).
func (in *Interp) DebugGlobals(substr string) {
	for g, p := range in.globals {
		if strings.Contains(g.String(), substr) {
			fmt.Fprintf(os.Stderr, "global %s = %#v\n", g.String(), *p)
		}
	}
}
