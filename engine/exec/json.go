package exec

import (
	"fmt"
	"go/types"
	"sort"
	"strings"

	"golang.org/x/tools/go/ssa"

	"verif/engine/term"
)

// JSON data-model stub (DESIGN 2.4): encoding/json.Marshal maps a Go value to a
// tree {number, string, bool, null, array, object-by-exported-field-name} whose
// number leaves are the (possibly symbolic) terms themselves; Unmarshal assigns
// by field name. Text formatting and parsing of numbers is not modelled: the
// documented contract (float64 round-trips exactly) is assumed.

type jsonTree struct {
	kind string // "num", "str", "bool", "null", "arr", "obj"
	num  *term.Term
	str  string
	b    *term.Term
	arr  []*jsonTree
	keys []string
	vals []*jsonTree
}

type jsonDoc struct{ tree *jsonTree }

func (in *Interp) jsonBytes(t *jsonTree) Value { return []Value{&jsonDoc{t}} }

func (in *Interp) jsonOf(v Value) (*jsonTree, bool) {
	s, ok := v.([]Value)
	if !ok || len(s) != 1 {
		return nil, false
	}
	d, ok := s[0].(*jsonDoc)
	if !ok {
		return nil, false
	}
	return d.tree, true
}

func (in *Interp) jsonErr(msg string) Value {
	return Iface{T: in.errorT, V: &ErrObj{Msg: "json: " + msg}}
}

func (in *Interp) hasMethod(t types.Type, name string) *ssa.Function {
	ms := in.prog.MethodSets.MethodSet(t)
	for i := 0; i < ms.Len(); i++ {
		sel := ms.At(i)
		if sel.Obj().Name() == name {
			return in.prog.MethodValue(sel)
		}
	}
	return nil
}

func exported(name string) bool { return name != "" && name[0] >= 'A' && name[0] <= 'Z' }

// jsonMarshal returns the tree or an error value.
func (in *Interp) jsonMarshal(t types.Type, v Value, top bool) (*jsonTree, Value) {
	// json.Marshaler on the value's type (value or pointer receiver reachable from the value)
	if !top || true {
		if f := in.hasMethod(t, "MarshalJSON"); f != nil && !(top && false) {
			if in.marshalDepth < 8 {
				in.marshalDepth++
				res := in.callSSA(f, []Value{v}, nil)
				in.marshalDepth--
				tup := res.(Tuple)
				if e, ok := tup[1].(Iface); ok && e.T != nil {
					return nil, e
				}
				tr, ok := in.jsonOf(tup[0])
				if !ok {
					in.unsupported("MarshalJSON returned bytes that do not come from the JSON stub")
				}
				return tr, nil
			}
		}
	}
	switch u := t.Underlying().(type) {
	case *types.Basic:
		switch x := v.(type) {
		case string:
			return &jsonTree{kind: "str", str: x}, nil
		case *term.Term:
			switch x.Sort.K {
			case term.KBool:
				return &jsonTree{kind: "bool", b: x}, nil
			case term.KFloat:
				bad := term.Or(term.FisNaN(x), term.FisInf(x, 0))
				if in.job.Mode != "real" && in.decide(bad) {
					return nil, in.jsonErr("unsupported value: NaN or Inf")
				}
				return &jsonTree{kind: "num", num: x}, nil
			default:
				return &jsonTree{kind: "num", num: x}, nil
			}
		}
	case *types.Pointer:
		p := v.(*Value)
		if p == nil {
			return &jsonTree{kind: "null"}, nil
		}
		return in.jsonMarshal(u.Elem(), *p, false)
	case *types.Slice:
		s := v.([]Value)
		if s == nil {
			return &jsonTree{kind: "null"}, nil
		}
		tr := &jsonTree{kind: "arr"}
		for _, e := range s {
			c, err := in.jsonMarshal(u.Elem(), e, false)
			if err != nil {
				return nil, err
			}
			tr.arr = append(tr.arr, c)
		}
		if tr.arr == nil {
			tr.arr = []*jsonTree{}
		}
		return tr, nil
	case *types.Array:
		tr := &jsonTree{kind: "arr", arr: []*jsonTree{}}
		for _, e := range v.(Array) {
			c, err := in.jsonMarshal(u.Elem(), e, false)
			if err != nil {
				return nil, err
			}
			tr.arr = append(tr.arr, c)
		}
		return tr, nil
	case *types.Struct:
		st := v.(Struct)
		tr := &jsonTree{kind: "obj"}
		for i := 0; i < u.NumFields(); i++ {
			f := u.Field(i)
			if !exported(f.Name()) {
				continue
			}
			c, err := in.jsonMarshal(f.Type(), st[i], false)
			if err != nil {
				return nil, err
			}
			tr.keys = append(tr.keys, f.Name())
			tr.vals = append(tr.vals, c)
		}
		return tr, nil
	case *types.Interface:
		i := v.(Iface)
		if i.T == nil {
			return &jsonTree{kind: "null"}, nil
		}
		return in.jsonMarshal(i.T, i.V, false)
	case *types.Map:
		m := v.(*MapObj)
		tr := &jsonTree{kind: "obj"}
		if m == nil {
			return &jsonTree{kind: "null"}, nil
		}
		type kv struct {
			k string
			v Value
		}
		var kvs []kv
		for _, i := range m.orderedKeys() {
			ks, ok := m.keys[i].(string)
			if !ok {
				if kt, ok2 := m.keys[i].(*term.Term); ok2 && kt.IsConst() {
					ks = fmt.Sprint(kt.Int())
				} else {
					in.unsupported("json: map key kind")
				}
			}
			kvs = append(kvs, kv{ks, m.vals[i]})
		}
		sort.Slice(kvs, func(a, b int) bool { return kvs[a].k < kvs[b].k })
		for _, e := range kvs {
			c, err := in.jsonMarshal(u.Elem(), e.v, false)
			if err != nil {
				return nil, err
			}
			tr.keys = append(tr.keys, e.k)
			tr.vals = append(tr.vals, c)
		}
		return tr, nil
	}
	in.unsupported("json.Marshal of " + t.String())
	return nil, nil
}

// jsonUnmarshal stores tree into *p (of type t); returns an error value or nil.
func (in *Interp) jsonUnmarshal(tree *jsonTree, t types.Type, p *Value, top bool) Value {
	if !top {
		if f := in.hasMethod(types.NewPointer(t), "UnmarshalJSON"); f != nil {
			res := in.callSSA(f, []Value{p, in.jsonBytes(tree)}, nil)
			if e, ok := res.(Iface); ok && e.T != nil {
				return e
			}
			return nil
		}
	}
	mismatch := func(want string) Value {
		return in.jsonErr("cannot unmarshal " + tree.kind + " into Go value of type " + want)
	}
	switch u := t.Underlying().(type) {
	case *types.Basic:
		if tree.kind == "null" {
			return nil
		}
		s, ok := sortOfBasic(u)
		if u.Info()&types.IsString != 0 {
			if tree.kind != "str" {
				return mismatch("string")
			}
			*p = tree.str
			return nil
		}
		if !ok {
			in.unsupported("json.Unmarshal into " + t.String())
		}
		switch s.K {
		case term.KBool:
			if tree.kind != "bool" {
				return mismatch("bool")
			}
			*p = tree.b
		case term.KFloat:
			if tree.kind != "num" {
				return mismatch("float")
			}
			switch tree.num.Sort.K {
			case term.KFloat:
				*p = term.FConv(s, tree.num)
			default:
				*p = term.I2F(s, tree.num)
			}
		default:
			if tree.kind != "num" {
				return mismatch("int")
			}
			if tree.num.Sort.K == term.KFloat {
				if !tree.num.IsConst() {
					in.unsupported("json: symbolic float into integer field")
				}
				if tree.num.F != float64(int64(tree.num.F)) {
					return mismatch("int")
				}
				*p = term.IntC(s, int64(tree.num.F))
			} else {
				*p = term.IConv(s, tree.num)
			}
		}
		return nil
	case *types.Pointer:
		if tree.kind == "null" {
			*p = (*Value)(nil)
			return nil
		}
		q := (*p).(*Value)
		if q == nil {
			q = new(Value)
			*q = in.zero(u.Elem())
			*p = q
		}
		return in.jsonUnmarshal(tree, u.Elem(), q, false)
	case *types.Slice:
		if tree.kind == "null" {
			*p = []Value(nil)
			return nil
		}
		if tree.kind != "arr" {
			return mismatch("slice")
		}
		s := make([]Value, len(tree.arr))
		var firstErr Value
		for i := range s {
			s[i] = in.zero(u.Elem())
			if err := in.jsonUnmarshal(tree.arr[i], u.Elem(), &s[i], false); err != nil && firstErr == nil {
				firstErr = err
			}
		}
		*p = s
		return firstErr
	case *types.Struct:
		if tree.kind == "null" {
			return nil
		}
		if tree.kind != "obj" {
			return mismatch("struct")
		}
		st := (*p).(Struct)
		var firstErr Value
		for k, key := range tree.keys {
			idx := -1
			for i := 0; i < u.NumFields(); i++ {
				if exported(u.Field(i).Name()) && u.Field(i).Name() == key {
					idx = i
				}
			}
			if idx < 0 {
				for i := 0; i < u.NumFields(); i++ {
					if exported(u.Field(i).Name()) && strings.EqualFold(u.Field(i).Name(), key) {
						idx = i
					}
				}
			}
			if idx < 0 {
				continue
			}
			if err := in.jsonUnmarshal(tree.vals[k], u.Field(idx).Type(), &st[idx], false); err != nil && firstErr == nil {
				firstErr = err
			}
		}
		return firstErr
	case *types.Interface:
		if u.NumMethods() != 0 {
			in.unsupported("json.Unmarshal into non-empty interface")
		}
		*p = in.jsonGeneric(tree)
		return nil
	}
	in.unsupported("json.Unmarshal into " + t.String())
	return nil
}

// jsonGeneric decodes into interface{}: objects become map[string]interface{},
// arrays []interface{}, numbers float64, as encoding/json documents.
func (in *Interp) jsonGeneric(tree *jsonTree) Value {
	empty := types.NewInterfaceType(nil, nil)
	switch tree.kind {
	case "null":
		return Iface{}
	case "num":
		x := tree.num
		if x.Sort.K != term.KFloat {
			x = term.I2F(term.F64, x)
		} else {
			x = term.FConv(term.F64, x)
		}
		return Iface{T: types.Typ[types.Float64], V: x}
	case "str":
		return Iface{T: types.Typ[types.String], V: tree.str}
	case "bool":
		return Iface{T: types.Typ[types.Bool], V: tree.b}
	case "arr":
		s := make([]Value, len(tree.arr))
		for i, e := range tree.arr {
			s[i] = in.jsonGeneric(e)
		}
		return Iface{T: types.NewSlice(empty), V: s}
	case "obj":
		m := newMap()
		for i, k := range tree.keys {
			m.set(in.mapKey(k), k, in.jsonGeneric(tree.vals[i]))
		}
		return Iface{T: types.NewMap(types.Typ[types.String], empty), V: m}
	}
	in.unsupported("json: tree kind " + tree.kind)
	return nil
}

func init() {
	marshal := func(in *Interp, fn *ssa.Function, a []Value) Value {
		i := a[0].(Iface)
		if i.T == nil {
			return Tuple{in.jsonBytes(&jsonTree{kind: "null"}), Iface{}}
		}
		in.stubsSeen["encoding/json.Marshal"]++
		tr, err := in.jsonMarshal(i.T, i.V, true)
		if err != nil {
			return Tuple{[]Value(nil), err}
		}
		return Tuple{in.jsonBytes(tr), Iface{}}
	}
	externals["encoding/json.Marshal"] = marshal
	externals["encoding/json.MarshalIndent"] = marshal
	externals["encoding/json.Unmarshal"] = func(in *Interp, fn *ssa.Function, a []Value) Value {
		in.stubsSeen["encoding/json.Unmarshal"]++
		tr, ok := in.jsonOf(a[0])
		if !ok {
			in.unsupported("json.Unmarshal of bytes that do not come from the JSON stub")
		}
		i := a[1].(Iface)
		pt, isPtr := i.T.Underlying().(*types.Pointer)
		if i.T == nil || !isPtr {
			return in.jsonErr("Unmarshal(non-pointer)")
		}
		p := i.V.(*Value)
		if p == nil {
			return in.jsonErr("Unmarshal(nil)")
		}
		// a type with its own UnmarshalJSON handles the whole document
		if f := in.hasMethod(i.T, "UnmarshalJSON"); f != nil && in.unmarshalTop[p] == 0 {
			in.unmarshalTop[p]++
			res := in.callSSA(f, []Value{p, a[0]}, nil)
			in.unmarshalTop[p]--
			if e, ok := res.(Iface); ok && e.T != nil {
				return e
			}
			return Iface{}
		}
		if err := in.jsonUnmarshal(tr, pt.Elem(), p, true); err != nil {
			return err
		}
		return Iface{}
	}
}
