// Package exec is symgo: a path-forking symbolic executor over go/ssa with a
// concrete heap and symbolic scalar leaves (DESIGN.md section 2).
package exec

import (
	"fmt"
	"go/types"
	"sort"

	"golang.org/x/tools/go/ssa"

	"verif/engine/term"
)

// Value is one of:
//
//	*term.Term          bool, integer and float values (constant or symbolic)
//	string              strings (always concrete)
//	*Value              pointers (nil pointer = (*Value)(nil)); also unsafe.Pointer
//	[]Value             slices (nil slice = []Value(nil))
//	Struct, Array       aggregates, copied on load/store
//	*MapObj             maps
//	Iface               interface values
//	*Closure, *ssa.Function, *ssa.Builtin   function values
//	Tuple               multiple results
//	*RType              reflect.Type token
//	*ErrObj             error value made by fmt.Errorf / errors.New
//	Addr                uintptr made from a pointer
type Value interface{}

type Struct []Value
type Array []Value
type Tuple []Value

type Iface struct {
	T types.Type // dynamic type; nil for the nil interface
	V Value
}

type Closure struct {
	Fn  *ssa.Function
	Env []Value
}

type RType struct {
	T   types.Type
	Str string
}

type ErrObj struct{ Msg string }

type Addr struct{ P *Value }

type MapObj struct {
	m     map[interface{}]int // key fingerprint -> index in keys/vals
	keys  []Value
	vals  []Value
	alive []bool
	n     int
}

func newMap() *MapObj { return &MapObj{m: map[interface{}]int{}} }

type constKey struct{ t *term.Term }

func (c constKey) String() string { return fmt.Sprintf("%s:%x:%v", c.t.Sort, c.t.C, c.t.F) }

type ifaceKey struct {
	t string
	v interface{}
}

func (in *Interp) mapKey(k Value) interface{} {
	switch k := k.(type) {
	case *term.Term:
		if !k.IsConst() {
			if k.Sort.K != term.KInt {
				in.unsupported("symbolic non-integer map key")
			}
			// case split over the feasible key values
			return constKey{term.IntC(k.Sort, in.concInt(k))}
		}
		return constKey{k}
	case string:
		return k
	case *Value:
		return k
	case *RType:
		return k
	case Iface:
		if k.T == nil {
			return ifaceKey{}
		}
		return ifaceKey{types.TypeString(k.T, nil), in.mapKey(k.V)}
	case Array:
		s := "A"
		for _, e := range k {
			s += fmt.Sprintf("|%v", in.mapKey(e))
		}
		return s
	case Struct:
		s := "S"
		for _, e := range k {
			s += fmt.Sprintf("|%v", in.mapKey(e))
		}
		return s
	}
	in.unsupported(fmt.Sprintf("map key of kind %T", k))
	return nil
}

func (m *MapObj) get(fp interface{}) (Value, bool) {
	if m == nil {
		return nil, false
	}
	if i, ok := m.m[fp]; ok && m.alive[i] {
		return m.vals[i], true
	}
	return nil, false
}

func (m *MapObj) set(fp interface{}, k, v Value) {
	if i, ok := m.m[fp]; ok && m.alive[i] {
		m.vals[i] = v
		return
	}
	m.m[fp] = len(m.keys)
	m.keys = append(m.keys, k)
	m.vals = append(m.vals, v)
	m.alive = append(m.alive, true)
	m.n++
}

func (m *MapObj) del(fp interface{}) {
	if m == nil {
		return
	}
	if i, ok := m.m[fp]; ok && m.alive[i] {
		m.alive[i] = false
		delete(m.m, fp)
		m.n--
	}
}

func (m *MapObj) length() int {
	if m == nil {
		return 0
	}
	return m.n
}

// orderedKeys returns live keys in ascending order (ints, strings) or
// insertion order (other kinds): the modelled map iteration order.
func (m *MapObj) orderedKeys() []int {
	if m == nil {
		return nil
	}
	var idx []int
	for i := range m.keys {
		if m.alive[i] {
			idx = append(idx, i)
		}
	}
	sort.SliceStable(idx, func(a, b int) bool {
		ka, kb := m.keys[idx[a]], m.keys[idx[b]]
		switch x := ka.(type) {
		case *term.Term:
			y := kb.(*term.Term)
			if x.Sort.K == term.KFloat {
				return x.F < y.F
			}
			if x.Sort.Signed {
				return x.Int() < y.Int()
			}
			return x.Uint() < y.Uint()
		case string:
			return x < kb.(string)
		}
		return false
	})
	return idx
}

type mapIter struct {
	m     *MapObj
	idx   []int
	pos   int
	isStr bool
	str   string
}

// copyVal deep-copies aggregates (struct and array values have value semantics).
func copyVal(v Value) Value {
	switch v := v.(type) {
	case Struct:
		r := make(Struct, len(v))
		for i, x := range v {
			r[i] = copyVal(x)
		}
		return r
	case Array:
		r := make(Array, len(v))
		for i, x := range v {
			r[i] = copyVal(x)
		}
		return r
	case Iface:
		// dynamic values of struct type are immutable once boxed, but copy to
		// be safe against later FieldAddr on a re-extracted copy
		switch v.V.(type) {
		case Struct, Array:
			return Iface{v.T, copyVal(v.V)}
		}
	}
	return v
}

func sortOfBasic(b *types.Basic) (term.Sort, bool) {
	switch b.Kind() {
	case types.Bool, types.UntypedBool:
		return term.Bool, true
	case types.Int, types.Int64, types.UntypedInt, types.UntypedRune:
		return term.I64, true
	case types.Int8:
		return term.IntSort(8, true), true
	case types.Int16:
		return term.IntSort(16, true), true
	case types.Int32:
		return term.IntSort(32, true), true
	case types.Uint, types.Uint64, types.Uintptr:
		return term.U64, true
	case types.Uint8:
		return term.IntSort(8, false), true
	case types.Uint16:
		return term.IntSort(16, false), true
	case types.Uint32:
		return term.IntSort(32, false), true
	case types.Float64, types.UntypedFloat:
		return term.F64, true
	case types.Float32:
		return term.F32, true
	}
	return term.Sort{}, false
}

func (in *Interp) zero(t types.Type) Value {
	switch t := t.Underlying().(type) {
	case *types.Basic:
		if t.Kind() == types.String || t.Kind() == types.UntypedString {
			return ""
		}
		if t.Kind() == types.UnsafePointer || t.Kind() == types.UntypedNil {
			return (*Value)(nil)
		}
		s, ok := sortOfBasic(t)
		if !ok {
			in.unsupported("zero of basic " + t.String())
		}
		switch s.K {
		case term.KBool:
			return term.False
		case term.KInt:
			return term.IntC(s, 0)
		default:
			return term.FloatC(s, 0)
		}
	case *types.Pointer:
		return (*Value)(nil)
	case *types.Slice:
		return []Value(nil)
	case *types.Map:
		return (*MapObj)(nil)
	case *types.Struct:
		r := make(Struct, t.NumFields())
		for i := range r {
			r[i] = in.zero(t.Field(i).Type())
		}
		return r
	case *types.Array:
		r := make(Array, t.Len())
		for i := range r {
			r[i] = in.zero(t.Elem())
		}
		return r
	case *types.Interface:
		return Iface{}
	case *types.Signature:
		return (*Closure)(nil)
	case *types.Chan:
		return (*Value)(nil)
	case *types.Tuple:
		r := make(Tuple, t.Len())
		for i := range r {
			r[i] = in.zero(t.At(i).Type())
		}
		return r
	}
	in.unsupported("zero of " + t.String())
	return nil
}
