package exec

import (
	"fmt"
	"go/constant"
	"go/token"
	"go/types"
	"os"
	"strings"

	"golang.org/x/tools/go/ssa"

	"verif/engine/term"
)

// execPanic is a Go-level panic of the interpreted program.
type execPanic struct {
	Class string // "explicit", "nil-deref", "index", "divide", "type-assert", "nil-map", "slice-bounds"
	Msg   string
	Val   Value
}

// pathEnd aborts the current path for engine reasons.
type pathEnd struct {
	Kind string // "unsupported", "unwind", "infeasible", "assume-false"
	What string
}

type deferred struct {
	fn   Value
	args []Value
}

type frame struct {
	in        *Interp
	fn        *ssa.Function
	env       map[ssa.Value]Value
	block     *ssa.BasicBlock
	prevBlock *ssa.BasicBlock
	defers    []deferred
	result    Value
}

func (in *Interp) unsupported(what string) {
	panic(pathEnd{"unsupported", what + in.where()})
}

func (in *Interp) where() string {
	if in.curInstr == nil {
		return ""
	}
	pos := in.prog.Fset.Position(in.curInstr.Pos())
	fn := ""
	if in.curInstr.Parent() != nil {
		fn = in.curInstr.Parent().String()
	}
	return fmt.Sprintf(" [in %s at %s: %v]", fn, pos, in.curInstr)
}

func (in *Interp) goPanic(class, msg string) {
	panic(execPanic{Class: class, Msg: msg})
}

func (fr *frame) get(v ssa.Value) Value {
	switch v := v.(type) {
	case nil:
		return nil
	case *ssa.Const:
		return fr.in.constValue(v)
	case *ssa.Function:
		return v
	case *ssa.Builtin:
		return v
	case *ssa.Global:
		return fr.in.global(v)
	}
	if r, ok := fr.env[v]; ok {
		return r
	}
	fr.in.unsupported(fmt.Sprintf("no value for %T %v", v, v.Name()))
	return nil
}

func (in *Interp) global(g *ssa.Global) *Value {
	if p, ok := in.globals[g]; ok {
		return p
	}
	p := new(Value)
	*p = in.zero(g.Type().(*types.Pointer).Elem())
	in.globals[g] = p
	return p
}

func (in *Interp) constValue(c *ssa.Const) Value {
	if c.Value == nil {
		return in.zero(c.Type())
	}
	t := c.Type().Underlying()
	b, ok := t.(*types.Basic)
	if !ok {
		in.unsupported("const of type " + t.String())
	}
	if b.Info()&types.IsString != 0 {
		return constant.StringVal(c.Value)
	}
	s, ok := sortOfBasic(b)
	if !ok {
		in.unsupported("const of basic " + b.String())
	}
	switch s.K {
	case term.KBool:
		return term.BoolC(constant.BoolVal(c.Value))
	case term.KInt:
		if s.Signed {
			return term.IntC(s, c.Int64())
		}
		return term.UintC(s, c.Uint64())
	default:
		return term.FloatC(s, c.Float64())
	}
}

// ---------------------------------------------------------------------------

func (in *Interp) callValue(fn Value, args []Value) Value {
	switch fn := fn.(type) {
	case *ssa.Function:
		if fn == nil {
			in.goPanic("nil-deref", "call of nil function")
		}
		return in.callSSA(fn, args, nil)
	case *Closure:
		if fn == nil {
			in.goPanic("nil-deref", "call of nil function")
		}
		return in.callSSA(fn.Fn, args, fn.Env)
	case *ssa.Builtin:
		return in.callBuiltin(fn, args)
	case *fakeMethod:
		return in.callFake(fn, args)
	}
	in.unsupported(fmt.Sprintf("call of %T", fn))
	return nil
}

func (in *Interp) callSSA(fn *ssa.Function, args []Value, env []Value) Value {
	name := fn.String()
	if fn.Parent() == nil {
		if ext, ok := externals[name]; ok {
			return ext(in, fn, args)
		}
		if r, ok := in.interceptByPackage(fn, name, args); ok {
			return r
		}
	}
	if fn.Name() == "init" && fn.Pkg != nil && !in.isRepoPkg(fn.Pkg) && fn.Signature.Recv() == nil {
		return nil // initialisers of other modules are not run (DESIGN 2.3)
	}
	if fn.Blocks == nil {
		in.unsupported("external function " + name)
	}
	in.depth++
	if in.depth > in.cfg.MaxDepth {
		panic(pathEnd{"unwind", "call depth exceeded in " + name})
	}
	defer func() { in.depth-- }()
	if in.funcsSeen != nil {
		in.funcsSeen[name]++
	}
	fr := &frame{in: in, fn: fn, env: make(map[ssa.Value]Value, 16)}
	for i, p := range fn.Params {
		fr.env[p] = args[i]
	}
	for i, fv := range fn.FreeVars {
		fr.env[fv] = env[i]
	}
	for _, l := range fn.Locals {
		fr.env[l] = new(Value)
	}
	fr.block = fn.Blocks[0]
	for fr.block != nil {
		fr.runBlock()
	}
	return fr.result
}

func (fr *frame) runBlock() {
	in := fr.in
	b := fr.block
	// phis first, simultaneously
	nphi := 0
	if fr.prevBlock != nil {
		var idx int
		for i, p := range b.Preds {
			if p == fr.prevBlock {
				idx = i
				break
			}
		}
		var vals []Value
		for _, instr := range b.Instrs {
			phi, ok := instr.(*ssa.Phi)
			if !ok {
				break
			}
			vals = append(vals, fr.get(phi.Edges[idx]))
			nphi++
		}
		for i := 0; i < nphi; i++ {
			fr.env[b.Instrs[i].(*ssa.Phi)] = vals[i]
		}
	}
	for _, instr := range b.Instrs[nphi:] {
		in.steps++
		if in.steps > in.cfg.MaxSteps {
			panic(pathEnd{"unwind", fmt.Sprintf("step bound %d exceeded", in.cfg.MaxSteps)})
		}
		in.curInstr = instr
		if fr.visit(instr) {
			return
		}
	}
	in.unsupported("block without terminator")
}

// visit returns true when control left the block.
func (fr *frame) visit(instr ssa.Instruction) bool {
	in := fr.in
	switch instr := instr.(type) {
	case *ssa.DebugRef:
	case *ssa.UnOp:
		fr.env[instr] = in.unop(instr, fr.get(instr.X))
	case *ssa.BinOp:
		fr.env[instr] = in.binop(instr.Op, instr.X.Type(), fr.get(instr.X), fr.get(instr.Y))
	case *ssa.Call:
		fn, args := fr.prepareCall(&instr.Call)
		fr.env[instr] = in.callValue(fn, args)
		in.curInstr = instr
	case *ssa.ChangeInterface:
		fr.env[instr] = fr.get(instr.X)
	case *ssa.ChangeType:
		fr.env[instr] = fr.get(instr.X)
	case *ssa.Convert:
		fr.env[instr] = in.conv(instr.Type(), instr.X.Type(), fr.get(instr.X))
	case *ssa.MakeInterface:
		fr.env[instr] = Iface{T: instr.X.Type(), V: copyVal(fr.get(instr.X))}
	case *ssa.Extract:
		fr.env[instr] = fr.get(instr.Tuple).(Tuple)[instr.Index]
	case *ssa.Slice:
		fr.env[instr] = in.slice(instr, fr.get(instr.X), fr.get(instr.Low), fr.get(instr.High), fr.get(instr.Max))
	case *ssa.Return:
		switch len(instr.Results) {
		case 0:
		case 1:
			fr.result = fr.get(instr.Results[0])
		default:
			var res Tuple
			for _, r := range instr.Results {
				res = append(res, fr.get(r))
			}
			fr.result = res
		}
		fr.block = nil
		return true
	case *ssa.RunDefers:
		for i := len(fr.defers) - 1; i >= 0; i-- {
			d := fr.defers[i]
			in.callValue(d.fn, d.args)
		}
		fr.defers = nil
	case *ssa.Panic:
		v := fr.get(instr.X)
		msg := ""
		if i, ok := v.(Iface); ok {
			switch x := i.V.(type) {
			case string:
				msg = x
			case *ErrObj:
				msg = x.Msg
			}
		}
		panic(execPanic{Class: "explicit", Msg: msg, Val: v})
	case *ssa.Store:
		p := fr.get(instr.Addr).(*Value)
		if p == nil {
			in.goPanic("nil-deref", "store through nil pointer")
		}
		in.checkStore(p)
		if in.curJob != nil {
			in.curJob.writes[p] = true
		}
		if in.watch != nil {
			if lbl, ok := in.watch[p]; ok {
				in.watchedStore(lbl, p, fr.get(instr.Val))
			}
		}
		*p = copyVal(fr.get(instr.Val))
	case *ssa.If:
		c := fr.get(instr.Cond).(*term.Term)
		succ := 1
		if in.decide(c) {
			succ = 0
		}
		fr.prevBlock, fr.block = fr.block, fr.block.Succs[succ]
		return true
	case *ssa.Jump:
		fr.prevBlock, fr.block = fr.block, fr.block.Succs[0]
		return true
	case *ssa.Defer:
		fn, args := fr.prepareCall(&instr.Call)
		fr.defers = append(fr.defers, deferred{fn, args})
	case *ssa.Alloc:
		var addr *Value
		if instr.Heap {
			addr = new(Value)
			fr.env[instr] = addr
		} else {
			addr = fr.env[instr].(*Value)
		}
		*addr = in.zero(instr.Type().Underlying().(*types.Pointer).Elem())
	case *ssa.MakeSlice:
		n := in.concInt(fr.get(instr.Len))
		c := in.concInt(fr.get(instr.Cap))
		if n < 0 || c < n {
			in.goPanic("slice-bounds", "makeslice: len out of range")
		}
		if c > 1<<22 {
			in.unsupported(fmt.Sprintf("MakeSlice of %d elements", c))
		}
		elt := instr.Type().Underlying().(*types.Slice).Elem()
		s := make([]Value, c)
		for i := range s {
			s[i] = in.zero(elt)
		}
		fr.env[instr] = s[:n]
	case *ssa.MakeMap:
		fr.env[instr] = newMap()
	case *ssa.Range:
		fr.env[instr] = in.rangeIter(fr.get(instr.X))
	case *ssa.Next:
		fr.env[instr] = in.next(instr, fr.get(instr.Iter).(*mapIter))
	case *ssa.FieldAddr:
		p := fr.get(instr.X).(*Value)
		if p == nil {
			in.goPanic("nil-deref", "field address of nil pointer")
		}
		fr.env[instr] = &(*p).(Struct)[instr.Field]
	case *ssa.Field:
		fr.env[instr] = copyVal(fr.get(instr.X).(Struct)[instr.Field])
	case *ssa.IndexAddr:
		x := fr.get(instr.X)
		switch x := x.(type) {
		case []Value:
			i := in.indexIn(fr.get(instr.Index), len(x))
			fr.env[instr] = &x[i]
		case *Value:
			if x == nil {
				in.goPanic("nil-deref", "index of nil array pointer")
			}
			a := (*x).(Array)
			i := in.indexIn(fr.get(instr.Index), len(a))
			fr.env[instr] = &a[i]
		default:
			in.unsupported(fmt.Sprintf("IndexAddr on %T", x))
		}
	case *ssa.Index:
		switch x := fr.get(instr.X).(type) {
		case Array:
			i := in.indexIn(fr.get(instr.Index), len(x))
			fr.env[instr] = copyVal(x[i])
		case string:
			i := in.indexIn(fr.get(instr.Index), len(x))
			fr.env[instr] = term.UintC(term.IntSort(8, false), uint64(x[i]))
		default:
			in.unsupported(fmt.Sprintf("Index on %T", x))
		}
	case *ssa.Lookup:
		fr.env[instr] = in.lookup(instr, fr.get(instr.X), fr.get(instr.Index))
	case *ssa.MapUpdate:
		m := fr.get(instr.Map).(*MapObj)
		if m == nil {
			in.goPanic("nil-map", "assignment to entry in nil map")
		}
		k := fr.get(instr.Key)
		fp := in.mapKey(k)
		if ck, ok := fp.(constKey); ok {
			k = ck.t
		}
		m.set(fp, k, copyVal(fr.get(instr.Value)))
	case *ssa.TypeAssert:
		fr.env[instr] = in.typeAssert(instr, fr.get(instr.X).(Iface))
	case *ssa.MakeClosure:
		var env []Value
		for _, b := range instr.Bindings {
			env = append(env, fr.get(b))
		}
		fr.env[instr] = &Closure{instr.Fn.(*ssa.Function), env}
	default:
		in.unsupported(fmt.Sprintf("instruction %T", instr))
	}
	return false
}

func (fr *frame) prepareCall(call *ssa.CallCommon) (Value, []Value) {
	in := fr.in
	v := fr.get(call.Value)
	var fn Value
	var args []Value
	if call.Method == nil {
		fn = v
	} else {
		recv := v.(Iface)
		if recv.T == nil {
			in.goPanic("nil-deref", "method "+call.Method.Name()+" invoked on nil interface")
		}
		if recv.T == in.rtypeT || recv.T == in.errorT {
			fn = &fakeMethod{recv.T, call.Method.Name()}
		} else {
			f := in.prog.LookupMethod(recv.T, call.Method.Pkg(), call.Method.Name())
			if f == nil {
				in.unsupported(fmt.Sprintf("method %s not found on %s", call.Method.Name(), recv.T))
			}
			fn = f
		}
		args = append(args, recv.V)
	}
	for _, a := range call.Args {
		args = append(args, copyVal(fr.get(a)))
	}
	return fn, args
}

type fakeMethod struct {
	t    types.Type
	name string
}

// ---------------------------------------------------------------------------
// decisions

// decide resolves a branch on c for this path, forking when both sides are
// feasible.
func (in *Interp) decide(c *term.Term) bool {
	if c.IsConst() {
		return c.BoolV()
	}
	if in.concrete {
		in.unsupported("symbolic condition in concrete mode")
	}
	d := len(in.decisions)
	if d < len(in.prefix) {
		dec := in.prefix[d]
		in.decisions = append(in.decisions, dec)
		if dec.Val != 0 {
			in.addPC(c)
			return true
		}
		in.addPC(term.Not(c))
		return false
	}
	if d >= in.cfg.MaxDecisions {
		panic(pathEnd{"unwind", fmt.Sprintf("decision bound %d exceeded", in.cfg.MaxDecisions)})
	}
	if in.followEnv != nil && in.job.Mode != "real" {
		// concolic order: when the followed valuation satisfies the path
		// condition so far, the side it takes is feasible by witness; only the
		// other side needs a query
		if v, ok := term.Eval(c, in.followEnv, in.followMemo); ok && in.followHolds() {
			other := term.Not(c)
			if !v.B {
				other = c
			}
			// the other side is not queried here (each query costs seconds on
			// the long path conditions of a followed run): it is forked
			// unconditionally and found infeasible, if it is, by the first
			// obligation or decision of that path
			fo := true
			_ = other
			val := 0
			if v.B {
				val = 1
			}
			if fo {
				alt := append(append([]Decision{}, in.decisions...), Decision{Val: 1 - val})
				in.work = append(in.work, alt)
				in.forks++
				in.decisions = append(in.decisions, Decision{Val: val})
			} else {
				in.decisions = append(in.decisions, Decision{Val: val, Forced: true})
			}
			if v.B {
				in.addPC(c)
			} else {
				in.addPC(term.Not(c))
			}
			return v.B
		}
	}
	ft := in.feasible(c)
	ff := true
	if ft {
		// pc is feasible, so when c is impossible ¬c is possible: one query
		ff = in.feasible(term.Not(c))
	}
	switch {
	case ft && ff:
		if in.followEnv != nil {
			if v, ok := term.Eval(c, in.followEnv, in.followMemo); ok && !v.B {
				// the followed concrete run takes the false side: explore it first
				alt := append(append([]Decision{}, in.decisions...), Decision{Val: 1})
				in.work = append(in.work, alt)
				in.decisions = append(in.decisions, Decision{Val: 0})
				in.addPC(term.Not(c))
				in.forks++
				return false
			}
		}
		alt := append(append([]Decision{}, in.decisions...), Decision{Val: 0})
		in.work = append(in.work, alt)
		in.decisions = append(in.decisions, Decision{Val: 1})
		in.addPC(c)
		in.forks++
		return true
	case ft:
		in.decisions = append(in.decisions, Decision{Val: 1, Forced: true})
		in.addPC(c)
		return true
	case ff:
		in.decisions = append(in.decisions, Decision{Val: 0, Forced: true})
		in.addPC(term.Not(c))
		return false
	}
	panic(pathEnd{"infeasible", "both sides infeasible"})
}

// followHolds: the followed valuation satisfies every conjunct of the path
// condition (checked incrementally)
func (in *Interp) followHolds() bool {
	for in.followChecked < len(in.pc) {
		v, ok := term.Eval(in.pc[in.followChecked], in.followEnv, in.followMemo)
		if !ok || !v.B {
			return false
		}
		in.followChecked++
	}
	return true
}

func (in *Interp) addPC(c *term.Term) {
	if c.IsConst() {
		if !c.BoolV() {
			panic(pathEnd{"infeasible", "constant false on path"})
		}
		return
	}
	if in.pcSet[c.ID] {
		return
	}
	in.pcSet[c.ID] = true
	in.pc = append(in.pc, c)
}

// concInt makes an int value concrete, enumerating its feasible values by
// solver-guided case split when symbolic.
func (in *Interp) concInt(v Value) int64 {
	t := v.(*term.Term)
	if t.IsConst() {
		return t.Int()
	}
	if in.concrete {
		in.unsupported("symbolic int in concrete mode")
	}
	for iter := 0; iter < 64; iter++ {
		d := len(in.decisions)
		var cand int64
		if d < len(in.prefix) {
			cand = in.prefix[d].Pick
		} else {
			val, ok := in.modelValue(t)
			if !ok {
				in.unsupported("cannot concretise " + t.String())
			}
			cand = val
		}
		c := term.Eq(t, term.IntC(t.Sort, cand))
		if in.decidePick(c, cand) {
			return cand
		}
	}
	in.unsupported("concretisation of " + t.String() + " needs more than 64 cases")
	return 0
}

// decidePick is decide with the candidate value recorded for re-execution.
func (in *Interp) decidePick(c *term.Term, cand int64) bool {
	d := len(in.decisions)
	if d < len(in.prefix) {
		dec := in.prefix[d]
		in.decisions = append(in.decisions, dec)
		if dec.Val != 0 {
			in.addPC(c)
			return true
		}
		in.addPC(term.Not(c))
		return false
	}
	// candidate came from a model, so the true side is feasible
	ff := in.feasible(term.Not(c))
	if ff {
		alt := append(append([]Decision{}, in.decisions...), Decision{Val: 0, Pick: cand})
		in.work = append(in.work, alt)
		in.forks++
		in.decisions = append(in.decisions, Decision{Val: 1, Pick: cand})
	} else {
		in.decisions = append(in.decisions, Decision{Val: 1, Pick: cand, Forced: true})
	}
	in.addPC(c)
	return true
}

// indexIn resolves an index against a concrete length, raising the Go
// out-of-range panic on the corresponding paths.
func (in *Interp) indexIn(v Value, n int) int {
	t := v.(*term.Term)
	if t.IsConst() {
		i := t.Int()
		if i < 0 || i >= int64(n) {
			in.goPanic("index", fmt.Sprintf("index out of range [%d] with length %d", i, n))
		}
		return int(i)
	}
	inRange := term.And(term.Le(term.IntC(t.Sort, 0), t), term.Lt(t, term.IntC(t.Sort, int64(n))))
	if !in.decide(inRange) {
		in.goPanic("index", fmt.Sprintf("index out of range [symbolic] with length %d", n))
	}
	for i := 0; i < n-1; i++ {
		if in.decide(term.Eq(t, term.IntC(t.Sort, int64(i)))) {
			return i
		}
	}
	in.addPC(term.Eq(t, term.IntC(t.Sort, int64(n-1))))
	return n - 1
}

func (in *Interp) checkStore(p *Value) {
	if in.frozen != nil && in.frozen[p] {
		in.unsupported("store to package-level variable after init")
	}
}

// ---------------------------------------------------------------------------

func (in *Interp) typeAssert(instr *ssa.TypeAssert, itf Iface) Value {
	var v Value
	ok := false
	if idst, isI := instr.AssertedType.Underlying().(*types.Interface); isI {
		if itf.T != nil && in.implements(itf.T, idst) {
			ok = true
			v = itf
		}
	} else if itf.T != nil && types.Identical(itf.T, instr.AssertedType) {
		ok = true
		v = copyVal(itf.V)
	}
	if instr.CommaOk {
		if !ok {
			v = in.zero(instr.AssertedType)
		}
		return Tuple{v, term.BoolC(ok)}
	}
	if !ok {
		ts := "nil"
		if itf.T != nil {
			ts = itf.T.String()
		}
		in.goPanic("type-assert", fmt.Sprintf("interface conversion: %s is not %s", ts, instr.AssertedType))
	}
	return v
}

func (in *Interp) implements(t types.Type, iface *types.Interface) bool {
	if t == in.rtypeT || t == in.errorT {
		return true
	}
	ms := in.prog.MethodSets.MethodSet(t)
	for i := 0; i < iface.NumMethods(); i++ {
		m := iface.Method(i)
		if ms.Lookup(m.Pkg(), m.Name()) == nil {
			return false
		}
	}
	return true
}

func (in *Interp) lookup(instr *ssa.Lookup, x, idx Value) Value {
	switch x := x.(type) {
	case *MapObj:
		v, ok := x.get(in.mapKey(idx))
		if !ok {
			v = in.zero(instr.X.Type().Underlying().(*types.Map).Elem())
		} else {
			v = copyVal(v)
		}
		if instr.CommaOk {
			return Tuple{v, term.BoolC(ok)}
		}
		return v
	case string:
		i := in.indexIn(idx, len(x))
		return term.UintC(term.IntSort(8, false), uint64(x[i]))
	}
	in.unsupported(fmt.Sprintf("Lookup on %T", x))
	return nil
}

func (in *Interp) rangeIter(x Value) *mapIter {
	switch x := x.(type) {
	case *MapObj:
		return &mapIter{m: x, idx: x.orderedKeys()}
	case string:
		return &mapIter{isStr: true, str: x}
	}
	in.unsupported(fmt.Sprintf("Range over %T", x))
	return nil
}

func (in *Interp) next(instr *ssa.Next, it *mapIter) Value {
	if it.isStr {
		if it.pos >= len(it.str) {
			return Tuple{term.False, term.IntC(term.I64, 0), term.IntC(term.IntSort(32, true), 0)}
		}
		// ASCII only
		r := Tuple{term.True, term.IntC(term.I64, int64(it.pos)), term.IntC(term.IntSort(32, true), int64(it.str[it.pos]))}
		it.pos++
		return r
	}
	for it.pos < len(it.idx) {
		i := it.idx[it.pos]
		it.pos++
		if it.m.alive[i] { // entries deleted during iteration are skipped
			return Tuple{term.True, it.m.keys[i], copyVal(it.m.vals[i])}
		}
	}
	return Tuple{term.False, nil, nil}
}

func (in *Interp) slice(instr *ssa.Slice, x, lo, hi, max Value) Value {
	var l, c int
	switch x := x.(type) {
	case []Value:
		l, c = len(x), cap(x)
	case string:
		l, c = len(x), len(x)
	case *Value:
		if x == nil {
			in.goPanic("nil-deref", "slice of nil array pointer")
		}
		l = len((*x).(Array))
		c = l
	default:
		in.unsupported(fmt.Sprintf("Slice of %T", x))
	}
	L, H, M := 0, l, c
	if lo != nil {
		L = int(in.concInt(lo))
	}
	if hi != nil {
		H = int(in.concInt(hi))
	}
	if max != nil {
		M = int(in.concInt(max))
	}
	if _, isStr := x.(string); isStr {
		if L < 0 || H < L || H > l {
			in.goPanic("slice-bounds", fmt.Sprintf("slice bounds out of range [%d:%d] with length %d", L, H, l))
		}
		return x.(string)[L:H]
	}
	if L < 0 || H < L || M < H || M > c {
		in.goPanic("slice-bounds", fmt.Sprintf("slice bounds out of range [%d:%d:%d] with capacity %d", L, H, M, c))
	}
	switch x := x.(type) {
	case []Value:
		if x == nil {
			return []Value(nil)
		}
		return x[L:H:M]
	case *Value:
		return []Value((*x).(Array))[L:H:M]
	}
	return nil
}

// equal returns the condition under which two values of the same static type
// compare == in Go.
func (in *Interp) equal(a, b Value) *term.Term {
	switch a := a.(type) {
	case *term.Term:
		bt := b.(*term.Term)
		if a.Sort.K == term.KFloat {
			return term.Feq(a, bt)
		}
		return term.Eq(a, bt)
	case string:
		return term.BoolC(a == b.(string))
	case *Value:
		bp, ok := b.(*Value)
		return term.BoolC(ok && a == bp)
	case []Value:
		bs := b.([]Value)
		if a == nil || bs == nil {
			return term.BoolC(a == nil && bs == nil)
		}
		in.unsupported("comparison of non-nil slices")
	case *MapObj:
		return term.BoolC(a == b.(*MapObj))
	case *Closure:
		bc, ok := b.(*Closure)
		return term.BoolC(ok && a == bc)
	case *ssa.Function:
		if bc, ok := b.(*Closure); ok {
			return term.BoolC(a == nil && bc == nil)
		}
		bf, ok := b.(*ssa.Function)
		return term.BoolC(ok && a == bf)
	case *RType:
		return term.BoolC(a == b.(*RType))
	case *ErrObj:
		bo, ok := b.(*ErrObj)
		return term.BoolC(ok && a == bo)
	case Addr:
		return term.BoolC(a.P == b.(Addr).P)
	case Iface:
		bi := b.(Iface)
		if a.T == nil || bi.T == nil {
			return term.BoolC(a.T == nil && bi.T == nil)
		}
		if !types.Identical(a.T, bi.T) {
			return term.False
		}
		return in.equal(a.V, bi.V)
	case Struct:
		bs := b.(Struct)
		r := term.True
		for i := range a {
			r = term.And(r, in.equal(a[i], bs[i]))
		}
		return r
	case Array:
		bs := b.(Array)
		r := term.True
		for i := range a {
			r = term.And(r, in.equal(a[i], bs[i]))
		}
		return r
	case nil:
		return term.BoolC(b == nil)
	}
	in.unsupported(fmt.Sprintf("equality on %T", a))
	return nil
}

func (in *Interp) unop(instr *ssa.UnOp, x Value) Value {
	switch instr.Op {
	case token.MUL:
		p := x.(*Value)
		if p == nil {
			in.goPanic("nil-deref", "nil pointer dereference")
		}
		if in.curJob != nil {
			in.curJob.reads[p] = true
		}
		return copyVal(*p)
	case token.SUB:
		t := x.(*term.Term)
		if t.Sort.K == term.KFloat {
			return term.Fneg(t)
		}
		return term.Neg(t)
	case token.NOT:
		return term.Not(x.(*term.Term))
	case token.XOR:
		return term.BitNot(x.(*term.Term))
	}
	in.unsupported("unop " + instr.Op.String())
	return nil
}

func (in *Interp) binop(op token.Token, xt types.Type, x, y Value) Value {
	a, aok := x.(*term.Term)
	b, bok := y.(*term.Term)
	if aok && bok {
		if a.Sort.K == term.KFloat {
			switch op {
			case token.ADD:
				return term.Fadd(a, b)
			case token.SUB:
				return term.Fsub(a, b)
			case token.MUL:
				return term.Fmul(a, b)
			case token.QUO:
				in.definedDiv(a, b)
				return term.Fdiv(a, b)
			case token.EQL:
				return term.Feq(a, b)
			case token.NEQ:
				return term.Not(term.Feq(a, b))
			case token.LSS:
				return term.Flt(a, b)
			case token.LEQ:
				return term.Fle(a, b)
			case token.GTR:
				return term.Flt(b, a)
			case token.GEQ:
				return term.Fle(b, a)
			}
		} else if a.Sort.K == term.KInt {
			switch op {
			case token.ADD:
				return term.Add(a, b)
			case token.SUB:
				return term.Sub(a, b)
			case token.MUL:
				return term.Mul(a, b)
			case token.QUO, token.REM:
				if b.IsConst() {
					if b.C == 0 {
						in.goPanic("divide", "integer divide by zero")
					}
				} else if in.decide(term.Eq(b, term.IntC(b.Sort, 0))) {
					in.goPanic("divide", "integer divide by zero")
				}
				if op == token.QUO {
					return term.Div(a, b)
				}
				return term.Rem(a, b)
			case token.AND:
				return term.BitAnd(a, b)
			case token.OR:
				return term.BitOr(a, b)
			case token.XOR:
				return term.BitXor(a, b)
			case token.AND_NOT:
				return term.AndNot(a, b)
			case token.SHL:
				return term.Shl(a, b)
			case token.SHR:
				return term.Shr(a, b)
			case token.EQL:
				return term.Eq(a, b)
			case token.NEQ:
				return term.Not(term.Eq(a, b))
			case token.LSS:
				return term.Lt(a, b)
			case token.LEQ:
				return term.Le(a, b)
			case token.GTR:
				return term.Lt(b, a)
			case token.GEQ:
				return term.Le(b, a)
			}
		} else {
			switch op {
			case token.EQL:
				return term.Eq(a, b)
			case token.NEQ:
				return term.Not(term.Eq(a, b))
			case token.AND:
				return term.And(a, b)
			case token.OR:
				return term.Or(a, b)
			}
		}
		in.unsupported("binop " + op.String() + " on " + a.Sort.String())
	}
	if xs, ok := x.(string); ok {
		ys := y.(string)
		switch op {
		case token.ADD:
			return xs + ys
		case token.EQL:
			return term.BoolC(xs == ys)
		case token.NEQ:
			return term.BoolC(xs != ys)
		case token.LSS:
			return term.BoolC(xs < ys)
		case token.LEQ:
			return term.BoolC(xs <= ys)
		case token.GTR:
			return term.BoolC(xs > ys)
		case token.GEQ:
			return term.BoolC(xs >= ys)
		}
	}
	switch op {
	case token.EQL:
		return in.equal(x, y)
	case token.NEQ:
		return term.Not(in.equal(x, y))
	}
	in.unsupported(fmt.Sprintf("binop %s on %T, %T", op, x, y))
	return nil
}

func (in *Interp) conv(dst, src types.Type, x Value) Value {
	ud, us := dst.Underlying(), src.Underlying()
	switch ud := ud.(type) {
	case *types.Basic:
		if ud.Kind() == types.UnsafePointer {
			switch x := x.(type) {
			case *Value:
				return x
			case Addr:
				return x.P
			}
			in.unsupported("conversion to unsafe.Pointer")
		}
		if ud.Info()&types.IsString != 0 {
			switch x := x.(type) {
			case string:
				return x
			case []Value:
				bs := make([]byte, len(x))
				for i, e := range x {
					bs[i] = byte(in.concInt(e))
				}
				return string(bs)
			case *term.Term:
				return string(rune(in.concInt(x)))
			}
			in.unsupported("conversion to string")
		}
		if p, ok := x.(*Value); ok && ud.Kind() == types.Uintptr {
			return Addr{p}
		}
		t, ok := x.(*term.Term)
		if !ok {
			in.unsupported(fmt.Sprintf("conversion of %T to %s", x, ud))
		}
		ds, ok := sortOfBasic(ud)
		if !ok {
			in.unsupported("conversion to " + ud.String())
		}
		switch {
		case t.Sort.K == term.KInt && ds.K == term.KInt:
			return term.IConv(ds, t)
		case t.Sort.K == term.KInt && ds.K == term.KFloat:
			return term.I2F(ds, t)
		case t.Sort.K == term.KFloat && ds.K == term.KInt:
			debugf("f2i: %s%s", t, in.where())
			return term.F2I(ds, t)
		case t.Sort.K == term.KFloat && ds.K == term.KFloat:
			return term.FConv(ds, t)
		case t.Sort.K == term.KBool && ds.K == term.KBool:
			return t
		}
	case *types.Slice:
		if s, ok := x.(string); ok {
			r := make([]Value, len(s))
			for i := range r {
				r[i] = term.UintC(term.IntSort(8, false), uint64(s[i]))
			}
			return r
		}
		return x
	case *types.Pointer:
		return x
	}
	_ = us
	in.unsupported(fmt.Sprintf("conversion %s -> %s", src, dst))
	return nil
}

func (in *Interp) callBuiltin(fn *ssa.Builtin, args []Value) Value {
	switch fn.Name() {
	case "len":
		switch x := args[0].(type) {
		case []Value:
			return term.IntC(term.I64, int64(len(x)))
		case string:
			return term.IntC(term.I64, int64(len(x)))
		case *MapObj:
			return term.IntC(term.I64, int64(x.length()))
		case Array:
			return term.IntC(term.I64, int64(len(x)))
		case *Value:
			if x == nil {
				return term.IntC(term.I64, 0)
			}
			return term.IntC(term.I64, int64(len((*x).(Array))))
		}
	case "cap":
		switch x := args[0].(type) {
		case []Value:
			return term.IntC(term.I64, int64(cap(x)))
		case Array:
			return term.IntC(term.I64, int64(len(x)))
		}
	case "append":
		s := args[0].([]Value)
		var add []Value
		switch y := args[1].(type) {
		case []Value:
			add = y
		case string:
			for i := 0; i < len(y); i++ {
				add = append(add, term.UintC(term.IntSort(8, false), uint64(y[i])))
			}
		}
		if len(add) == 0 {
			return s
		}
		need := len(s) + len(add)
		if need > cap(s) {
			nc := need
			if c := cap(s); c > 0 {
				dbl := 2 * c
				if c >= 256 {
					dbl = c + (c+768)/4
				}
				if dbl > nc {
					nc = dbl
				}
			}
			ns := make([]Value, len(s), nc)
			copy(ns, s)
			s = ns
		}
		n0 := len(s)
		s = s[:need]
		for i, e := range add {
			s[n0+i] = copyVal(e)
		}
		return s
	case "copy":
		dst := args[0].([]Value)
		n := 0
		switch src := args[1].(type) {
		case []Value:
			tmp := make([]Value, len(src))
			for i, e := range src {
				tmp[i] = copyVal(e)
			}
			if in.watch != nil {
				for i := 0; i < len(dst) && i < len(tmp); i++ {
					if lbl, ok := in.watch[&dst[i]]; ok {
						in.watchedStore(lbl, &dst[i], tmp[i])
					}
				}
			}
			n = copy(dst, tmp)
		case string:
			for i := 0; i < len(src) && i < len(dst); i++ {
				dst[i] = term.UintC(term.IntSort(8, false), uint64(src[i]))
				n++
			}
		}
		return term.IntC(term.I64, int64(n))
	case "delete":
		m := args[0].(*MapObj)
		m.del(in.mapKey(args[1]))
		return nil
	case "ssa:wrapnilchk":
		if p, ok := args[0].(*Value); ok && p == nil {
			in.goPanic("nil-deref", "value method called using nil pointer")
		}
		return args[0]
	case "print", "println":
		return nil
	case "recover":
		return Iface{}
	case "panic":
		panic(execPanic{Class: "explicit", Val: args[0]})
	}
	in.unsupported("builtin " + fn.Name())
	return nil
}

func debugf(format string, args ...interface{}) {
	if os.Getenv("SYMGO_DEBUG") != "" {
		fmt.Fprintf(os.Stderr, format+"\n", args...)
	}
}

func shortName(fn string) string {
	if i := strings.LastIndex(fn, "/"); i >= 0 {
		return fn[i+1:]
	}
	return fn
}
