package exec

import (
	"fmt"
	"go/types"
	"math"
	"strings"

	"golang.org/x/tools/go/ssa"

	"verif/engine/term"
)

type external func(in *Interp, fn *ssa.Function, args []Value) Value

var externals map[string]external

const rootPkg = "github.com/pbenner/autodiff"

func init() {
	externals = map[string]external{
		"math.Abs":     func(in *Interp, fn *ssa.Function, a []Value) Value { return term.Fabs(a[0].(*term.Term)) },
		"math.Sqrt": func(in *Interp, fn *ssa.Function, a []Value) Value {
			in.definedSqrt(a[0].(*term.Term))
			return term.Fsqrt(a[0].(*term.Term))
		},
		"math.IsNaN":   func(in *Interp, fn *ssa.Function, a []Value) Value { return term.FisNaN(a[0].(*term.Term)) },
		"math.Signbit": func(in *Interp, fn *ssa.Function, a []Value) Value { return term.FisNeg(a[0].(*term.Term)) },
		"math.Max": func(in *Interp, fn *ssa.Function, a []Value) Value {
			return term.Fmax(a[0].(*term.Term), a[1].(*term.Term))
		},
		"math.Min": func(in *Interp, fn *ssa.Function, a []Value) Value {
			return term.Fmin(a[0].(*term.Term), a[1].(*term.Term))
		},
		"math.NaN":      func(in *Interp, fn *ssa.Function, a []Value) Value { return term.FloatC(term.F64, math.NaN()) },
		"math.Copysign": extCopysign,
		"math.IsInf": func(in *Interp, fn *ssa.Function, a []Value) Value {
			return term.FisInf(a[0].(*term.Term), int(in.concInt(a[1])))
		},
		"math.Inf": func(in *Interp, fn *ssa.Function, a []Value) Value {
			s := 1
			if in.concInt(a[0]) < 0 {
				s = -1
			}
			return term.FloatC(term.F64, math.Inf(s))
		},
		"math.Float64bits": func(in *Interp, fn *ssa.Function, a []Value) Value {
			t := a[0].(*term.Term)
			if !t.IsConst() {
				in.unsupported("Float64bits of symbolic value")
			}
			return term.UintC(term.U64, math.Float64bits(t.F))
		},
		"math.Float64frombits": func(in *Interp, fn *ssa.Function, a []Value) Value {
			t := a[0].(*term.Term)
			if !t.IsConst() {
				in.unsupported("Float64frombits of symbolic value")
			}
			return term.FloatC(term.F64, math.Float64frombits(t.Uint()))
		},
		"math.Pow":    extPow,
		"math.Lgamma": extLgamma,
		"math.Mod": func(in *Interp, fn *ssa.Function, a []Value) Value {
			return in.mathUF2("Mod", math.Mod, a[0].(*term.Term), a[1].(*term.Term))
		},
		"math.Atan2": func(in *Interp, fn *ssa.Function, a []Value) Value {
			return in.mathUF2("Atan2", math.Atan2, a[0].(*term.Term), a[1].(*term.Term))
		},
		"math.Hypot": func(in *Interp, fn *ssa.Function, a []Value) Value {
			return in.mathUF2("Hypot", math.Hypot, a[0].(*term.Term), a[1].(*term.Term))
		},
		"math.Nextafter": func(in *Interp, fn *ssa.Function, a []Value) Value {
			return in.mathUF2("Nextafter", math.Nextafter, a[0].(*term.Term), a[1].(*term.Term))
		},
		"reflect.TypeOf": func(in *Interp, fn *ssa.Function, a []Value) Value {
			i := a[0].(Iface)
			if i.T == nil {
				return Iface{}
			}
			return Iface{T: in.rtypeT, V: in.rtype(i.T)}
		},
		"fmt.Sprintf":  func(in *Interp, fn *ssa.Function, a []Value) Value { return in.fmtString(a[0], a[1]) },
		"fmt.Sprint":   func(in *Interp, fn *ssa.Function, a []Value) Value { return "<fmt.Sprint>" },
		"fmt.Sprintln": func(in *Interp, fn *ssa.Function, a []Value) Value { return "<fmt.Sprintln>" },
		"fmt.Errorf": func(in *Interp, fn *ssa.Function, a []Value) Value {
			return Iface{T: in.errorT, V: &ErrObj{Msg: in.fmtString(a[0], a[1])}}
		},
		"errors.New": func(in *Interp, fn *ssa.Function, a []Value) Value {
			return Iface{T: in.errorT, V: &ErrObj{Msg: a[0].(string)}}
		},
		"fmt.Printf":   extIgnoreIO,
		"fmt.Println":  extIgnoreIO,
		"fmt.Print":    extIgnoreIO,
		"fmt.Fprintf":  extIgnoreIO,
		"fmt.Fprintln": extIgnoreIO,
		"fmt.Fprint":   extIgnoreIO,
		"log.Printf":   extIgnoreIO,
		"log.Println":  extIgnoreIO,
		"log.Fatal": func(in *Interp, fn *ssa.Function, a []Value) Value {
			panic(execPanic{Class: "explicit", Msg: "log.Fatal"})
		},
		"log.Fatalf": func(in *Interp, fn *ssa.Function, a []Value) Value {
			panic(execPanic{Class: "explicit", Msg: "log.Fatalf"})
		},
		"os.Exit": func(in *Interp, fn *ssa.Function, a []Value) Value {
			panic(execPanic{Class: "explicit", Msg: "os.Exit"})
		},
		"sort.Ints":     extSortInts,
		"sort.Float64s": extSortFloats,
	}
	for n, m := range map[string]string{"Floor": "floor", "Ceil": "ceil", "Trunc": "trunc", "Round": "round"} {
		mode := m
		externals["math."+n] = func(in *Interp, fn *ssa.Function, a []Value) Value {
			return term.Fround(mode, a[0].(*term.Term))
		}
	}
	for _, n := range []string{"Exp", "Expm1", "Log", "Log1p", "Log2", "Log10", "Sin", "Cos", "Tan", "Sinh", "Cosh", "Tanh",
		"Erf", "Erfc", "Gamma", "Atan", "Asin", "Acos", "Cbrt", "Erfinv"} {
		name := n
		externals["math."+name] = func(in *Interp, fn *ssa.Function, a []Value) Value {
			return in.mathUF1(name, a[0].(*term.Term))
		}
	}
	registerHarnessIntrinsics()
}

func extIgnoreIO(in *Interp, fn *ssa.Function, a []Value) Value {
	sig := fn.Signature
	if sig.Results().Len() == 0 {
		return nil
	}
	return in.zero(sig.Results())
}

func (in *Interp) rtype(t types.Type) *RType {
	k := types.TypeString(t, nil)
	if r, ok := in.rtypes[k]; ok {
		return r
	}
	r := &RType{T: t, Str: k}
	in.rtypes[k] = r
	return r
}

func (in *Interp) fmtString(format Value, args Value) string {
	f, _ := format.(string)
	return "<fmt:" + f + ">"
}

func (in *Interp) callFake(fm *fakeMethod, args []Value) Value {
	switch fm.t {
	case in.errorT:
		if fm.name == "Error" {
			return args[0].(*ErrObj).Msg
		}
	case in.rtypeT:
		rt := args[0].(*RType)
		switch fm.name {
		case "String", "Name":
			return rt.Str
		case "Kind":
			return term.IntC(kindSort, kindOf(rt.T))
		case "Elem":
			if p, ok := rt.T.Underlying().(*types.Pointer); ok {
				return Iface{T: in.rtypeT, V: in.rtype(p.Elem())}
			}
		}
	}
	in.unsupported("method " + fm.name + " on " + fm.t.String())
	return nil
}

var math1 = map[string]func(float64) float64{
	"Exp": math.Exp, "Expm1": math.Expm1, "Log": math.Log, "Log1p": math.Log1p, "Log2": math.Log2, "Log10": math.Log10,
	"Sin": math.Sin, "Cos": math.Cos, "Tan": math.Tan, "Sinh": math.Sinh, "Cosh": math.Cosh, "Tanh": math.Tanh,
	"Erf": math.Erf, "Erfc": math.Erfc, "Gamma": math.Gamma, "Floor": math.Floor, "Ceil": math.Ceil, "Trunc": math.Trunc,
	"Round": math.Round, "Atan": math.Atan, "Asin": math.Asin, "Acos": math.Acos, "Cbrt": math.Cbrt, "Erfinv": math.Erfinv,
}

func (in *Interp) addFact(key *term.Term, f *term.Term) {
	if f.IsConst() && f.BoolV() {
		return
	}
	in.facts[key.ID] = append(in.facts[key.ID], f)
}

func imp(a, b *term.Term) *term.Term { return term.Or(term.Not(a), b) }

// mathUF1 models a libm function of one argument: constant arguments are
// evaluated by Go's own math package (the same code the native build runs);
// symbolic ones become an uninterpreted function plus the special-value facts
// of the function's Go documentation.
func (in *Interp) mathUF1(name string, x *term.Term) *term.Term {
	if x.IsConst() {
		return term.FloatC(term.F64, math1[name](x.F))
	}
	in.stubsSeen["math."+name]++
	u := term.UF(term.F64, "math."+name, x)
	if _, done := in.facts[u.ID]; done {
		return u
	}
	c := func(f float64) *term.Term { return term.FloatC(term.F64, f) }
	nan := term.FisNaN
	pinf, ninf := term.FisInf(x, 1), term.FisInf(x, -1)
	fin := term.And(term.Not(nan(x)), term.Not(term.FisInf(x, 0)))
	eq := term.Feq
	le := term.Fle
	if in.job.Mode == "real" {
		if name == "Exp" {
			return in.expOf(x)
		}
		if name == "Log" && x.Op == "uf" && x.Name == "E" && len(x.Args) == 1 {
			return x.Args[0] // log(exp(t)) = t
		}
		if name == "Log1p" {
			// one head for logarithms: log1p(w) = log(1 + w)
			return in.mathUF1("Log", term.Fadd(c(1), x))
		}
		if name == "Log" && (x.Op == "fdiv" || x.Op == "fmul") && !x.Args[0].IsConst() && !x.Args[1].IsConst() {
			// log of a quotient / product of positive factors (interior of the
			// domain: both factors are arguments of a logarithm elsewhere or
			// assumed positive by the harness)
			in.stubsSeen["math.Log(a/b)=Log a-Log b, a,b>0"]++
			l, r := in.mathUF1("Log", x.Args[0]), in.mathUF1("Log", x.Args[1])
			if x.Op == "fdiv" {
				return term.Fsub(l, r)
			}
			return term.Fadd(l, r)
		}
		switch name {
		case "Exp":
			in.addFact(u, term.Flt(c(0), u))
		case "Erf":
			in.addFact(u, term.And(term.Flt(c(-1), u), term.Flt(u, c(1))))
		case "Erfc":
			in.addFact(u, term.And(term.Flt(c(0), u), term.Flt(u, c(2))))
		case "Cosh":
			sh := term.UF(term.F64, "math.Sinh", x)
			in.addFact(u, eq(term.Fsub(term.Fmul(u, u), term.Fmul(sh, sh)), c(1)))
			in.addFact(u, le(c(1), u))
		case "Sin", "Cos", "Tan":
			sn := term.UF(term.F64, "math.Sin", x)
			cs := term.UF(term.F64, "math.Cos", x)
			in.addFact(u, eq(term.Fadd(term.Fmul(sn, sn), term.Fmul(cs, cs)), c(1)))
			if name == "Tan" {
				in.addFact(u, eq(term.Fmul(u, cs), sn))
				in.addFact(u, term.Not(eq(cs, c(0))))
			}
		case "Sinh", "Tanh":
			sh := term.UF(term.F64, "math.Sinh", x)
			ch := term.UF(term.F64, "math.Cosh", x)
			in.addFact(u, eq(term.Fsub(term.Fmul(ch, ch), term.Fmul(sh, sh)), c(1)))
			in.addFact(u, le(c(1), ch))
			if name == "Tanh" {
				in.addFact(u, eq(term.Fmul(u, ch), sh))
			}
		case "Floor":
			in.addFact(u, term.And(le(u, x), term.Flt(x, term.Fadd(u, c(1)))))
		case "Ceil":
			in.addFact(u, term.And(le(x, u), term.Flt(term.Fsub(u, c(1)), x)))
		}
		in.facts[u.ID] = append(in.facts[u.ID], term.True)
		return u
	}
	in.addFact(u, imp(nan(x), nan(u)))
	switch name {
	case "Exp":
		in.addFact(u, imp(pinf, term.FisInf(u, 1)))
		in.addFact(u, imp(ninf, eq(u, c(0))))
		in.addFact(u, imp(term.Not(nan(x)), term.And(term.Not(nan(u)), le(c(0), u))))
		// range steps of Go's math.Exp (documented overflow / underflow thresholds,
		// monotone, error < 1 ulp; bounds relaxed outwards): what overflow- and
		// underflow-dependent behaviour of callers can be decided from
		in.addFact(u, imp(term.Flt(c(709.782712893384), x), term.FisInf(u, 1)))
		in.addFact(u, imp(le(x, c(709.78)), term.Not(term.FisInf(u, 0))))
		in.addFact(u, imp(le(x, c(-745.2)), eq(u, c(0))))
		in.addFact(u, imp(le(x, c(0)), le(u, c(1))))
		in.addFact(u, imp(le(c(0), x), le(c(1), u)))
		in.addFact(u, imp(eq(x, c(0)), eq(u, c(1))))
		in.addFact(u, imp(le(c(88.73), x), le(c(3.41e38), u)))  // beyond MaxFloat32
		in.addFact(u, imp(le(x, c(-104.5)), le(u, c(4.2e-46)))) // below half the least float32
		in.addFact(u, imp(le(c(-700), x), term.Flt(c(0), u)))
		in.addFact(u, imp(le(c(37), x), le(c(1.1e16), u))) // 1 + exp(x) == exp(x) from here on
		in.addFact(u, imp(le(x, c(-37)), le(u, c(1e-16)))) // 1 + exp(x) == 1
	case "Expm1":
		in.addFact(u, imp(pinf, term.FisInf(u, 1)))
		in.addFact(u, imp(ninf, eq(u, c(-1))))
		in.addFact(u, imp(term.Not(nan(x)), term.And(term.Not(nan(u)), le(c(-1), u))))
		in.addFact(u, imp(eq(x, c(0)), eq(u, c(0))))
	case "Log", "Log2", "Log10":
		in.addFact(u, imp(le(c(1), x), le(c(0), u)))
		in.addFact(u, imp(term.And(term.Flt(c(0), x), le(x, c(1))), le(u, c(0))))
		in.addFact(u, imp(term.Flt(x, c(0)), nan(u)))
		in.addFact(u, imp(eq(x, c(0)), term.FisInf(u, -1)))
		in.addFact(u, imp(pinf, term.FisInf(u, 1)))
		in.addFact(u, imp(term.And(term.Flt(c(0), x), fin), term.And(term.Not(nan(u)), term.Not(term.FisInf(u, 0)))))
		in.addFact(u, imp(eq(x, c(1)), eq(u, c(0))))
	case "Log1p":
		in.addFact(u, imp(le(c(0), x), term.And(le(c(0), u), le(u, x))))
		in.addFact(u, imp(term.And(le(c(0), x), le(x, c(1))), le(u, c(0.69314718056))))
		in.addFact(u, imp(term.And(term.Flt(c(-1), x), le(x, c(0))), le(u, c(0))))
		in.addFact(u, imp(term.Flt(x, c(-1)), nan(u)))
		in.addFact(u, imp(eq(x, c(-1)), term.FisInf(u, -1)))
		in.addFact(u, imp(pinf, term.FisInf(u, 1)))
		in.addFact(u, imp(eq(x, c(0)), eq(u, c(0))))
		in.addFact(u, imp(term.And(term.Flt(c(-1), x), fin), term.And(term.Not(nan(u)), term.Not(term.FisInf(u, 0)))))
	case "Sin", "Cos", "Tan":
		in.addFact(u, imp(term.FisInf(x, 0), nan(u)))
		in.addFact(u, imp(fin, term.Not(nan(u))))
		if name != "Tan" {
			in.addFact(u, imp(fin, term.And(le(c(-1), u), le(u, c(1)))))
		}
		if name != "Cos" {
			in.addFact(u, imp(eq(x, c(0)), eq(u, c(0))))
		}
	case "Sinh":
		in.addFact(u, imp(pinf, term.FisInf(u, 1)))
		in.addFact(u, imp(ninf, term.FisInf(u, -1)))
		in.addFact(u, imp(term.Not(nan(x)), term.Not(nan(u))))
		in.addFact(u, imp(eq(x, c(0)), eq(u, c(0))))
	case "Cosh":
		in.addFact(u, imp(term.FisInf(x, 0), term.FisInf(u, 1)))
		in.addFact(u, imp(term.Not(nan(x)), term.And(term.Not(nan(u)), le(c(1), u))))
	case "Tanh":
		in.addFact(u, imp(pinf, eq(u, c(1))))
		in.addFact(u, imp(ninf, eq(u, c(-1))))
		in.addFact(u, imp(term.Not(nan(x)), term.And(le(c(-1), u), le(u, c(1)))))
		in.addFact(u, imp(eq(x, c(0)), eq(u, c(0))))
	case "Erf":
		in.addFact(u, imp(pinf, eq(u, c(1))))
		in.addFact(u, imp(ninf, eq(u, c(-1))))
		in.addFact(u, imp(term.Not(nan(x)), term.And(le(c(-1), u), le(u, c(1)))))
	case "Erfc":
		in.addFact(u, imp(le(c(28), x), eq(u, c(0)))) // underflow (erfc(27.3) is already 0)
		in.addFact(u, imp(le(x, c(26)), term.Flt(c(0), u)))
		in.addFact(u, imp(pinf, eq(u, c(0))))
		in.addFact(u, imp(ninf, eq(u, c(2))))
		in.addFact(u, imp(term.Not(nan(x)), term.And(le(c(0), u), le(u, c(2)))))
	case "Floor", "Ceil", "Trunc", "Round":
		in.addFact(u, imp(term.FisInf(x, 0), eq(u, x)))
		in.addFact(u, imp(fin, term.And(term.Not(nan(u)), term.Not(term.FisInf(u, 0)))))
		switch name {
		case "Floor":
			in.addFact(u, imp(fin, le(u, x)))
		case "Ceil":
			in.addFact(u, imp(fin, le(x, u)))
		}
	}
	in.facts[u.ID] = append(in.facts[u.ID], term.True)
	return u
}

func (in *Interp) mathUF2(name string, f func(a, b float64) float64, x, y *term.Term) *term.Term {
	if x.IsConst() && y.IsConst() {
		return term.FloatC(term.F64, f(x.F, y.F))
	}
	in.stubsSeen["math."+name]++
	return term.UF(term.F64, "math."+name, x, y)
}

func extCopysign(in *Interp, fn *ssa.Function, a []Value) Value {
	x, y := a[0].(*term.Term), a[1].(*term.Term)
	if x.IsConst() && y.IsConst() {
		return term.FloatC(term.F64, math.Copysign(x.F, y.F))
	}
	ax := term.Fabs(x)
	return term.Ite(term.FisNeg(y), term.Fneg(ax), ax)
}

func extPow(in *Interp, fn *ssa.Function, a []Value) Value {
	x, y := a[0].(*term.Term), a[1].(*term.Term)
	if x.IsConst() && y.IsConst() {
		return term.FloatC(term.F64, math.Pow(x.F, y.F))
	}
	in.stubsSeen["math.Pow"]++
	u := term.UF(term.F64, "math.Pow", x, y)
	if _, done := in.facts[u.ID]; done {
		return u
	}
	c := func(f float64) *term.Term { return term.FloatC(term.F64, f) }
	if in.job.Mode == "real" {
		if y.IsConst() && y.F*2 == math.Floor(y.F*2) && math.Abs(y.F) <= 8 {
			// integer and half-integer exponents: products of x and sqrt(x)
			k := int(math.Floor(math.Abs(y.F)))
			half := math.Abs(y.F) != float64(k)
			r := c(1)
			for i := 0; i < k; i++ {
				r = term.Fmul(r, x)
			}
			if half {
				in.definedSqrt(x)
				r = term.Fmul(r, term.Fsqrt(x))
			}
			if y.F < 0 {
				in.definedDiv(c(1), r)
				r = term.Fdiv(c(1), r)
			}
			return r
		}
		// x^y = exp(y log x) on the interior of the domain (x > 0): under the
		// exp-homomorphism x^(y-1), x^(y-2) and x^y become E(y log x) / x^k
		in.stubsSeen["math.Pow(x,y)=exp(y log x), x>0"]++
		return in.expOf(term.Fmul(y, in.mathUF1("Log", x)))
	}
	if y.IsConst() && (y.F == 0.5 || y.F == -0.5) {
		// Go's math.Pow returns Sqrt(x) resp. 1/Sqrt(x) for these exponents
		// (after its special cases, of which x = -Inf differs from Sqrt)
		r := term.Fsqrt(x)
		if y.F < 0 {
			r = term.Fdiv(c(1), r)
			return term.Ite(term.FisInf(x, -1), c(0), r)
		}
		return term.Ite(term.FisInf(x, -1), c(math.Inf(1)), r)
	}
	if y.IsConst() && y.F == 2 {
		// not exact in general (Pow(x,2) is computed by its own algorithm), keep
		// uninterpreted; range of a square: non-negative, at most 1 on [-1, 1]
		// (Pow's result is within 1 ulp of the exact square, and 1 is exact)
		nn := term.Not(term.FisNaN(x))
		in.addFact(u, imp(nn, term.And(term.Not(term.FisNaN(u)), term.Fle(c(0), u))))
		in.addFact(u, imp(term.And(term.Fle(c(-1), x), term.Fle(x, c(1))), term.Fle(u, c(1))))
		// Go's Pow squares the mantissa once and rescales: the result is the
		// correctly rounded product whenever that is a normal number (no second
		// rounding); compared bit for bit with x*x on 2*10^7 random arguments
		sq := term.Fmul(x, x)
		in.addFact(u, imp(term.Feq(x, c(0)), term.Feq(u, c(0))))
		in.addFact(u, imp(term.And(term.Fle(c(2.3e-308), sq), term.Not(term.FisInf(sq, 0))), term.Feq(u, sq)))
		in.stubsSeen["math.Pow(x,2)=x*x in the normal range"]++
	}
	y0 := term.Feq(y, c(0))
	x1 := term.Feq(x, c(1))
	in.addFact(u, imp(y0, term.Feq(u, c(1))))
	in.addFact(u, imp(x1, term.Feq(u, c(1))))
	in.addFact(u, imp(term.And(term.Feq(y, c(1)), term.Not(term.FisNaN(x))), term.Feq(u, x)))
	in.addFact(u, imp(term.And(term.Or(term.FisNaN(x), term.FisNaN(y)), term.And(term.Not(y0), term.Not(x1))), term.FisNaN(u)))
	in.facts[u.ID] = append(in.facts[u.ID], term.True)
	return u
}

func extLgamma(in *Interp, fn *ssa.Function, a []Value) Value {
	x := a[0].(*term.Term)
	if x.IsConst() {
		v, s := math.Lgamma(x.F)
		return Tuple{term.FloatC(term.F64, v), term.IntC(term.I64, int64(s))}
	}
	in.stubsSeen["math.Lgamma"]++
	u := term.UF(term.F64, "math.Lgamma", x)
	s := term.UF(term.I64, "math.LgammaSign", x)
	if _, done := in.facts[s.ID]; !done {
		one, mone := term.IntC(term.I64, 1), term.IntC(term.I64, -1)
		in.addFact(s, term.Or(term.Eq(s, one), term.Eq(s, mone)))
		if in.job.Mode != "real" {
			in.addFact(u, imp(term.FisNaN(x), term.FisNaN(u)))
			in.addFact(s, imp(term.Flt(term.FloatC(term.F64, 0), x), term.Eq(s, one)))
		} else {
			in.addFact(s, imp(term.Flt(term.FloatC(term.F64, 0), x), term.Eq(s, one)))
		}
	}
	return Tuple{u, s}
}

func extSortInts(in *Interp, fn *ssa.Function, a []Value) Value {
	s := a[0].([]Value)
	for i := 1; i < len(s); i++ {
		for j := i; j > 0; j-- {
			if in.decide(term.Lt(s[j].(*term.Term), s[j-1].(*term.Term))) {
				s[j], s[j-1] = s[j-1], s[j]
			} else {
				break
			}
		}
	}
	return nil
}

func extSortFloats(in *Interp, fn *ssa.Function, a []Value) Value {
	s := a[0].([]Value)
	less := func(x, y *term.Term) *term.Term {
		// sort.Float64s: NaNs first
		return term.Or(term.Flt(x, y), term.And(term.FisNaN(x), term.Not(term.FisNaN(y))))
	}
	for i := 1; i < len(s); i++ {
		for j := i; j > 0; j-- {
			if in.decide(less(s[j].(*term.Term), s[j-1].(*term.Term))) {
				s[j], s[j-1] = s[j-1], s[j]
			} else {
				break
			}
		}
	}
	return nil
}

// interceptByPackage turns calls into packages whose bodies are outside the
// claims (special functions with symbolic arguments) into uninterpreted
// functions named after the callee.
func (in *Interp) interceptByPackage(fn *ssa.Function, name string, args []Value) (Value, bool) {
	if fn.Pkg == nil {
		return nil, false
	}
	if r, ok := in.interceptPool(fn, name, args); ok {
		return r, true
	}
	if in.job.SummariseLogAdd && in.job.Mode == "real" && fn.Pkg.Pkg.Path() == in.repoMod+"/logarithmetic" && fn.Name() == "LogAdd" && len(args) == 2 {
		a, b := args[0].(*term.Term), args[1].(*term.Term)
		negInf := func(t *term.Term) bool { return t.IsConst() && math.IsInf(t.F, -1) }
		in.stubsSeen["summary:logarithmetic.LogAdd"]++
		switch {
		case negInf(a):
			return b, true
		case negInf(b):
			return a, true
		}
		return in.mathUF1("Log", term.Fadd(in.expOf(a), in.expOf(b))), true
	}
	if in.job.SummariseLogAdd && in.job.Mode == "real" && fn.Signature.Recv() != nil && fn.Pkg.Pkg.Path() == in.repoMod &&
		(fn.Name() == "LogAdd" || fn.Name() == "LOGADD") && len(args) == 4 {
		if r, ok := in.logAddSummary(fn, args); ok {
			return r, true
		}
	}
	path := fn.Pkg.Pkg.Path()
	if path != in.repoMod+"/special" {
		return nil, false
	}
	if fn.Signature.Recv() != nil || fn.Object() == nil || !fn.Object().Exported() {
		return nil, false
	}
	if in.specialBodies[fn.Name()] {
		return nil, false
	}
	symbolic := false
	var targs []*term.Term
	for _, a := range args {
		t, ok := a.(*term.Term)
		if !ok {
			return nil, false // slices etc.: execute the body
		}
		if !t.IsConst() {
			symbolic = true
		}
		targs = append(targs, t)
	}
	if !symbolic {
		return nil, false
	}
	in.stubsSeen[shortName(name)]++
	res := fn.Signature.Results()
	mk := func(i int, t types.Type) Value {
		nm := "special." + fn.Name()
		if res.Len() > 1 {
			nm = fmt.Sprintf("%s#%d", nm, i)
		}
		if b, ok := t.Underlying().(*types.Basic); ok {
			if s, ok := sortOfBasic(b); ok {
				u := term.UF(s, nm, targs...)
				if s.K == term.KFloat && in.job.Mode != "real" {
					// NaN in, NaN out is common to every special function here
					if _, done := in.facts[u.ID]; !done {
						if fn.Name() == "LogErfc" && len(targs) == 1 {
							// log(erfc(x)) is finite for every finite x (that is the point of
							// the function: erfc itself underflows beyond x = 27) and at most log 2
							x := targs[0]
							fin := term.And(term.Not(term.FisNaN(x)), term.Not(term.FisInf(x, 0)))
							in.addFact(u, imp(fin, term.And(term.Not(term.FisNaN(u)), term.And(term.Not(term.FisInf(u, 0)), term.Fle(u, term.FloatC(term.F64, 0.6931471805599454))))))
						}
						in.facts[u.ID] = append(in.facts[u.ID], term.True)
					}
				}
				return u
			}
		}
		return in.zero(t) // error results: nil
	}
	switch res.Len() {
	case 0:
		return nil, true
	case 1:
		return mk(0, res.At(0).Type()), true
	}
	var tup Tuple
	for i := 0; i < res.Len(); i++ {
		tup = append(tup, mk(i, res.At(i).Type()))
	}
	return tup, true
}

func isHarnessFn(name string) bool {
	return strings.HasPrefix(name, rootPkg+".Verif")
}

// expOf returns exp(t) in the real interpretation as a rational function of
// atoms E(x) (DESIGN 3.3: exp-homomorphism): exp(a+b) = exp(a)exp(b),
// exp(a-b) = exp(a)/exp(b), exp(-a) = 1/exp(a), exp(log u) = u,
// exp(log1p u) = 1+u, exp(k*a) = exp(a)^k for small integer constants k.
func (in *Interp) expOf(t *term.Term) *term.Term {
	one := term.FloatC(term.F64, 1)
	if t.IsConst() {
		if t.F == 0 {
			return one
		}
		if math.IsInf(t.F, -1) {
			return term.FloatC(term.F64, 0)
		}
		return in.expAtom(t)
	}
	switch t.Op {
	case "fadd":
		return term.Fmul(in.expOf(t.Args[0]), in.expOf(t.Args[1]))
	case "fsub":
		return term.Fdiv(in.expOf(t.Args[0]), in.expOf(t.Args[1]))
	case "fneg":
		return term.Fdiv(one, in.expOf(t.Args[0]))
	case "fmul":
		for i := 0; i < 2; i++ {
			k, x := t.Args[i], t.Args[1-i]
			if k.IsConst() && k.F == math.Floor(k.F) && math.Abs(k.F) <= 4 && k.F != 0 {
				e := in.expOf(x)
				r := one
				for j := 0; j < int(math.Abs(k.F)); j++ {
					r = term.Fmul(r, e)
				}
				if k.F < 0 {
					r = term.Fdiv(one, r)
				}
				return r
			}
		}
		// (a +- b) c: distribute, so that x^(y-1) = x^y / x
		for i := 0; i < 2; i++ {
			s, c := t.Args[i], t.Args[1-i]
			if s.Op == "fadd" || s.Op == "fsub" {
				l := in.expOf(term.Fmul(s.Args[0], c))
				r := in.expOf(term.Fmul(s.Args[1], c))
				if s.Op == "fadd" {
					return term.Fmul(l, r)
				}
				return term.Fdiv(l, r)
			}
		}
		// canonical factor order for the atom E(a*b)
		if t.Args[0].ID > t.Args[1].ID {
			return in.expAtom(term.Fmul(t.Args[1], t.Args[0]))
		}
	case "uf":
		if len(t.Args) == 1 {
			switch t.Name {
			case "math.Log":
				return t.Args[0]
			case "math.Log1p":
				return term.Fadd(one, t.Args[0])
			}
		}
	}
	return in.expAtom(t)
}

func (in *Interp) expAtom(t *term.Term) *term.Term {
	if t.IsConst() {
		// constants that are logarithms of small integers (observation counters
		// pass through math.Log): exp(log k) = k  (snapping table, DESIGN 3.2)
		for k := 2; k <= 64; k++ {
			if t.F == math.Log(float64(k)) {
				in.stubsSeen["snap:exp(log k)=k"]++
				return term.FloatC(term.F64, float64(k))
			}
		}
	}
	if t.IsConst() && t.F < 0 {
		// one atom per |c|: exp(-c) = 1/exp(c)
		return term.Fdiv(term.FloatC(term.F64, 1), in.expAtom(term.FloatC(term.F64, -t.F)))
	}
	in.stubsSeen["math.Exp"]++
	u := term.UF(term.F64, "E", t)
	if _, done := in.facts[u.ID]; !done {
		in.addFact(u, term.Flt(term.FloatC(term.F64, 0), u))
		if !t.IsConst() {
			// exp is strictly increasing through (0, 1)
			zero, one := term.FloatC(term.F64, 0), term.FloatC(term.F64, 1)
			in.addFact(u, term.Or(term.Not(term.Feq(t, zero)), term.Feq(u, one)))
			in.addFact(u, term.Or(term.Not(term.Flt(zero, t)), term.Flt(one, u)))
			in.addFact(u, term.Or(term.Not(term.Flt(t, zero)), term.Flt(u, one)))
			// exp(-a) exp(a) = 1 against the other atoms of this path (a sign
			// hidden in a symbolic factor escapes the structural expansion)
			if len(in.expAtoms) < 8 {
				for _, w := range in.expAtoms {
					in.addFact(u, term.Or(term.Not(term.Feq(term.Fadd(t, w.Args[0]), zero)), term.Feq(term.Fmul(u, w), one)))
				}
				in.expAtoms = append(in.expAtoms, u)
			}
		}
		in.facts[u.ID] = append(in.facts[u.ID], term.True)
	}
	return u
}

// hasLogTop: t is a sum/difference whose summands include a log-like head
func hasLogTop(t *term.Term) bool {
	switch t.Op {
	case "fadd", "fsub":
		return hasLogTop(t.Args[0]) || hasLogTop(t.Args[1])
	case "fneg":
		return hasLogTop(t.Args[0])
	case "uf":
		return t.Name == "math.Log" || t.Name == "math.Log1p"
	}
	return false
}

// logAddSummary implements r.LogAdd(a, b, t) as r = log(exp a + exp b) with
// the special cases of the code for -Inf operands.
func (in *Interp) logAddSummary(fn *ssa.Function, args []Value) (Value, bool) {
	recvT := fn.Signature.Recv().Type()
	get := func(v Value) (*term.Term, bool) {
		var t types.Type
		var val Value
		switch x := v.(type) {
		case Iface:
			if x.T == nil {
				return nil, false
			}
			t, val = x.T, x.V
		default:
			t, val = recvT, v
		}
		f := in.hasMethod(t, "GetFloat64")
		if f == nil {
			return nil, false
		}
		r, ok := in.callSSA(f, []Value{val}, nil).(*term.Term)
		return r, ok
	}
	// derivative-carrying operands are not summarised
	for _, v := range args[1:3] {
		var t types.Type
		var val Value
		if x, ok := v.(Iface); ok {
			t, val = x.T, x.V
		} else {
			t, val = recvT, v
		}
		if f := in.hasMethod(t, "GetOrder"); f != nil {
			if o, ok := in.callSSA(f, []Value{val}, nil).(*term.Term); !ok || !o.IsConst() || o.Int() != 0 {
				return nil, false
			}
		}
	}
	a, ok1 := get(args[1])
	b, ok2 := get(args[2])
	if !ok1 || !ok2 {
		return nil, false
	}
	set := in.hasMethod(recvT, "SetFloat64")
	if set == nil {
		return nil, false
	}
	in.stubsSeen["summary:LogAdd"]++
	var r *term.Term
	negInf := func(t *term.Term) bool { return t.IsConst() && math.IsInf(t.F, -1) }
	switch {
	case negInf(a):
		r = b
	case negInf(b):
		r = a
	default:
		sum := term.Fadd(in.expOf(a), in.expOf(b))
		r = in.mathUF1("Log", sum)
	}
	in.callSSA(set, []Value{args[0], r}, nil)
	if fn.Signature.Results().Len() == 1 {
		if _, isI := fn.Signature.Results().At(0).Type().Underlying().(*types.Interface); isI {
			return Iface{T: recvT, V: args[0]}, true
		}
		return args[0], true
	}
	return nil, true
}

// ---------------------------------------------------------------------------
// thread pool contract stub (DESIGN 6/C17). A pool of k > 1 threads is modelled
// by its contract: AddJob runs each job exactly once, inline, with a ThreadPool
// whose thread id is an arbitrary value in [0,k) (one path per assignment);
// jobs with equal id run in submission order; Wait returns after all jobs.
// Every heap cell read or written while a job runs is logged with the job, so
// that non-interference between jobs of different threads can be asserted.

type poolJobLog struct {
	id     int64
	reads  map[*Value]bool
	writes map[*Value]bool
}

const poolPkg = "github.com/pbenner/threadpool"

func (in *Interp) interceptPool(fn *ssa.Function, name string, args []Value) (Value, bool) {
	path := fn.Pkg.Pkg.Path()
	if path == "sync" {
		switch fn.Name() {
		case "Lock", "Unlock", "RLock", "RUnlock", "Wait", "Done", "Add":
			if fn.Signature.Recv() != nil {
				return nil, true
			}
		}
		return nil, false
	}
	if path != poolPkg || in.poolThreads <= 1 {
		return nil, false
	}
	switch fn.Name() {
	case "New":
		if fn.Signature.Recv() == nil {
			st := fn.Signature.Results().At(0).Type().Underlying().(*types.Struct)
			inner := st.Field(0).Type().Underlying().(*types.Pointer).Elem()
			p := new(Value)
			*p = in.zero(inner)
			return Struct{p, term.IntC(term.I64, 0)}, true
		}
	case "NumberOfThreads":
		return term.IntC(term.I64, int64(in.poolThreads)), true
	case "NewJobGroup":
		in.poolGroups++
		return term.IntC(term.I64, int64(in.poolGroups)), true
	case "Wait":
		if fn.Signature.Recv() != nil && fn.Signature.Params().Len() == 1 {
			return Iface{}, true
		}
	case "AddJob":
		// args: receiver ThreadPool (Struct), jobGroup, f
		recv := args[0].(Struct)
		id := int64(0)
		if !in.concrete {
			v := in.input(term.I64, "thread")
			in.addPC(term.Le(term.IntC(term.I64, 0), v))
			in.addPC(term.Lt(v, term.IntC(term.I64, int64(in.poolThreads))))
			id = in.concInt(v)
		}
		pool := copyVal(recv).(Struct)
		pool[1] = term.IntC(term.I64, id)
		erf := &Closure{Fn: in.poolErf}
		log := &poolJobLog{id: id, reads: map[*Value]bool{}, writes: map[*Value]bool{}}
		saved := in.curJob
		in.curJob = log
		res := in.callValue(args[2], []Value{pool, erf})
		in.curJob = saved
		in.poolJobs = append(in.poolJobs, log)
		if e, ok := res.(Iface); ok && e.T != nil {
			return e, true
		}
		return Iface{}, true
	}
	return nil, false
}

// poolInterference reports a cell written by one job and accessed by a job of
// a different thread.
func (in *Interp) poolInterference() int {
	n := 0
	for i, a := range in.poolJobs {
		for j, b := range in.poolJobs {
			if i == j || a.id == b.id {
				continue
			}
			for p := range a.writes {
				if b.reads[p] || b.writes[p] {
					n++
				}
			}
		}
	}
	return n
}
