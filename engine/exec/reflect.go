package exec

import (
	"go/types"

	"golang.org/x/tools/go/ssa"

	"verif/engine/term"
)

// Data-model stub of the part of package reflect that statistics/config.go
// uses to read decoded JSON (Kind, Float, Bool, String, Len, Index, Elem,
// Interface, MapIndex, IsValid). A reflect.Value is represented by *RVal: the
// dynamic type and the executor value.

type RVal struct {
	T     types.Type // nil: the zero Value (IsValid() == false)
	V     Value
	iface bool // the value is an interface-typed element (Kind() == Interface)
}

var kindCode = map[string]int64{"invalid": 0, "bool": 1, "int": 2, "int8": 3, "int16": 4, "int32": 5, "int64": 6,
	"uint": 7, "uint8": 8, "uint16": 9, "uint32": 10, "uint64": 11, "uintptr": 12, "float32": 13, "float64": 14,
	"array": 17, "chan": 18, "func": 19, "interface": 20, "map": 21, "ptr": 22, "slice": 23, "string": 24, "struct": 25}

func kindOf(t types.Type) int64 {
	if t == nil {
		return 0
	}
	switch u := t.Underlying().(type) {
	case *types.Basic:
		switch u.Kind() {
		case types.Bool:
			return 1
		case types.Int:
			return 2
		case types.Int8:
			return 3
		case types.Int16:
			return 4
		case types.Int32:
			return 5
		case types.Int64:
			return 6
		case types.Uint:
			return 7
		case types.Uint8:
			return 8
		case types.Uint16:
			return 9
		case types.Uint32:
			return 10
		case types.Uint64:
			return 11
		case types.Float32:
			return 13
		case types.Float64:
			return 14
		case types.String:
			return 24
		}
	case *types.Array:
		return 17
	case *types.Interface:
		return 20
	case *types.Map:
		return 21
	case *types.Pointer:
		return 22
	case *types.Slice:
		return 23
	case *types.Struct:
		return 25
	case *types.Signature:
		return 19
	}
	return 0
}

var kindSort = term.IntSort(64, false)

func (in *Interp) rvalKind(r *RVal) Value {
	if r == nil || r.T == nil {
		return term.IntC(kindSort, 0)
	}
	if r.iface {
		return term.IntC(kindSort, 20)
	}
	return term.IntC(kindSort, kindOf(r.T))
}

// elemRVal wraps an element of static type et (interface elements keep their
// interface kind until Elem() is called)
func (in *Interp) elemRVal(et types.Type, v Value) *RVal {
	if _, ok := et.Underlying().(*types.Interface); ok {
		i, _ := v.(Iface)
		return &RVal{T: et, V: i, iface: true}
	}
	return &RVal{T: et, V: v}
}

func init() {
	rv := func(v Value) *RVal {
		r, _ := v.(*RVal)
		return r
	}
	externals["reflect.ValueOf"] = func(in *Interp, fn *ssa.Function, a []Value) Value {
		in.stubsSeen["reflect.ValueOf"]++
		i := a[0].(Iface)
		if i.T == nil {
			return &RVal{}
		}
		return &RVal{T: i.T, V: i.V}
	}
	externals["(reflect.Value).Kind"] = func(in *Interp, fn *ssa.Function, a []Value) Value { return in.rvalKind(rv(a[0])) }
	externals["(reflect.Value).IsValid"] = func(in *Interp, fn *ssa.Function, a []Value) Value {
		r := rv(a[0])
		return term.BoolC(r != nil && r.T != nil)
	}
	externals["(reflect.Value).Float"] = func(in *Interp, fn *ssa.Function, a []Value) Value {
		t, ok := rv(a[0]).V.(*term.Term)
		if !ok || t.Sort.K != term.KFloat {
			in.goPanic("reflect", "reflect: call of reflect.Value.Float on non-float Value")
		}
		return term.FConv(term.F64, t)
	}
	externals["(reflect.Value).Int"] = func(in *Interp, fn *ssa.Function, a []Value) Value {
		t, ok := rv(a[0]).V.(*term.Term)
		if !ok || t.Sort.K != term.KInt {
			in.goPanic("reflect", "reflect: call of reflect.Value.Int on non-int Value")
		}
		return term.IConv(term.I64, t)
	}
	externals["(reflect.Value).Bool"] = func(in *Interp, fn *ssa.Function, a []Value) Value {
		t, ok := rv(a[0]).V.(*term.Term)
		if !ok || t.Sort.K != term.KBool {
			in.goPanic("reflect", "reflect: call of reflect.Value.Bool on non-bool Value")
		}
		return t
	}
	externals["(reflect.Value).String"] = func(in *Interp, fn *ssa.Function, a []Value) Value {
		if s, ok := rv(a[0]).V.(string); ok {
			return s
		}
		return "<reflect.Value>"
	}
	externals["(reflect.Value).Len"] = func(in *Interp, fn *ssa.Function, a []Value) Value {
		switch x := rv(a[0]).V.(type) {
		case []Value:
			return term.IntC(term.I64, int64(len(x)))
		case Array:
			return term.IntC(term.I64, int64(len(x)))
		case string:
			return term.IntC(term.I64, int64(len(x)))
		case *MapObj:
			if x == nil {
				return term.IntC(term.I64, 0)
			}
			return term.IntC(term.I64, int64(x.n))
		}
		in.goPanic("reflect", "reflect: call of reflect.Value.Len on unsupported Value")
		return nil
	}
	externals["(reflect.Value).Index"] = func(in *Interp, fn *ssa.Function, a []Value) Value {
		r := rv(a[0])
		i := int(in.concInt(a[1]))
		switch x := r.V.(type) {
		case []Value:
			if i < 0 || i >= len(x) {
				in.goPanic("reflect", "reflect: slice index out of range")
			}
			return in.elemRVal(r.T.Underlying().(*types.Slice).Elem(), x[i])
		case Array:
			if i < 0 || i >= len(x) {
				in.goPanic("reflect", "reflect: array index out of range")
			}
			return in.elemRVal(r.T.Underlying().(*types.Array).Elem(), x[i])
		}
		in.goPanic("reflect", "reflect: call of reflect.Value.Index on unsupported Value")
		return nil
	}
	externals["(reflect.Value).Elem"] = func(in *Interp, fn *ssa.Function, a []Value) Value {
		r := rv(a[0])
		if r.iface {
			i := r.V.(Iface)
			if i.T == nil {
				return &RVal{}
			}
			return &RVal{T: i.T, V: i.V}
		}
		if p, ok := r.T.Underlying().(*types.Pointer); ok {
			q := r.V.(*Value)
			if q == nil {
				return &RVal{}
			}
			return in.elemRVal(p.Elem(), *q)
		}
		in.goPanic("reflect", "reflect: call of reflect.Value.Elem on unsupported Value")
		return nil
	}
	externals["(reflect.Value).Interface"] = func(in *Interp, fn *ssa.Function, a []Value) Value {
		r := rv(a[0])
		if r == nil || r.T == nil {
			in.goPanic("reflect", "reflect: call of reflect.Value.Interface on zero Value")
		}
		if r.iface {
			return r.V.(Iface)
		}
		return Iface{T: r.T, V: r.V}
	}
	externals["(reflect.Value).MapIndex"] = func(in *Interp, fn *ssa.Function, a []Value) Value {
		r := rv(a[0])
		k := rv(a[1])
		m, ok := r.V.(*MapObj)
		if !ok {
			in.goPanic("reflect", "reflect: call of reflect.Value.MapIndex on non-map Value")
		}
		if m == nil {
			return &RVal{}
		}
		v, found := m.get(in.mapKey(k.V))
		if !found {
			return &RVal{}
		}
		return in.elemRVal(r.T.Underlying().(*types.Map).Elem(), v)
	}
}
