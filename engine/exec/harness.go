package exec

import (
	"fmt"
	"math"
	"strconv"
	"strings"

	"golang.org/x/tools/go/ssa"

	"verif/engine/term"
)

// Harness intrinsics: functions named Verif* declared in the root package's
// overlay runtime file (harness/rt/zz_verif_rt.go). The executor intercepts
// them; natively they read the replay file.

func (in *Interp) freshName(name string) string {
	n := in.varCount[name]
	in.varCount[name] = n + 1
	if n == 0 {
		return name
	}
	return fmt.Sprintf("%s#%d", name, n)
}

func (in *Interp) input(s term.Sort, name string) *term.Term {
	return in.inputR(s, name, 0, -1)
}

// inputR: lo..hi is the documented range of an integer input (hi < lo: none)
func (in *Interp) inputR(s term.Sort, name string, lo, hi int64) *term.Term {
	name = in.freshName(name)
	if in.job.Concrete != nil {
		raw, ok := in.job.Concrete[name]
		seed, auto := in.job.Concrete["*auto"]
		switch s.K {
		case term.KFloat:
			if ok && strings.HasPrefix(raw, "f:") {
				u, _ := strconv.ParseUint(raw[2:], 16, 64)
				return term.FloatC(s, math.Float64frombits(u))
			}
			if auto {
				x := autoFloat(seed, name)
				if s.Bits == 32 {
					x = float64(float32(x))
				}
				return term.FloatC(s, x)
			}
			return term.FloatC(s, 0)
		case term.KInt:
			if !ok && auto {
				switch {
				case hi >= lo:
					return term.IntC(s, autoInt(seed, name, lo, hi))
				case s.Bits < 64:
					return term.IntC(s, autoIntN(seed, name, s.Bits))
				default:
					return term.IntC(s, autoInt(seed, name, -1000, 1000))
				}
			}
			if !ok && hi >= lo {
				return term.IntC(s, lo)
			}
			n, _ := strconv.ParseInt(raw, 10, 64)
			return term.IntC(s, n)
		default:
			if !ok && auto {
				return term.BoolC(autoBool(seed, name))
			}
			return term.BoolC(raw == "true")
		}
	}
	v := term.Var(s, name)
	in.inputs = append(in.inputs, v)
	if in.followEnv != nil {
		seed := in.job.Follow
		switch s.K {
		case term.KFloat:
			x := autoFloat(seed, name)
			if s.Bits == 32 {
				x = float64(float32(x))
			}
			in.followEnv[name] = term.Val{F: x}
		case term.KInt:
			switch {
			case hi >= lo:
				in.followEnv[name] = term.Val{I: uint64(autoInt(seed, name, lo, hi))}
			case s.Bits < 64:
				in.followEnv[name] = term.Val{I: uint64(autoIntN(seed, name, s.Bits))}
			default:
				in.followEnv[name] = term.Val{I: uint64(autoInt(seed, name, -1000, 1000))}
			}
		default:
			in.followEnv[name] = term.Val{B: autoBool(seed, name)}
		}
	}
	return v
}

func (in *Interp) assume(c *term.Term) {
	if c.IsConst() {
		if !c.BoolV() {
			panic(pathEnd{"assume-false", ""})
		}
		return
	}
	if !in.feasible(c) {
		panic(pathEnd{"assume-false", ""})
	}
	in.addPC(c)
}

func (in *Interp) assert(label string, cond *term.Term) {
	in.nobl++
	ob := in.check(label, cond)
	if ob.Status == "closed" {
		// obligations whose two sides are the same term are counted, not listed
		// (millions on view and clone harnesses; the list would dominate the results)
		in.res.Closed++
		return
	}
	in.res.Obligations = append(in.res.Obligations, ob)
	if ob.Tier == "fp-path-infeasible" {
		panic(pathEnd{"infeasible", "path condition unsatisfiable in the precise theory"})
	}
	if ob.Status == "closed" || ob.Status == "discharged" {
		return
	}
	// the path continues without assuming the failed assertion: later
	// obligations are decided on their own
}

func registerHarnessIntrinsics() {
	reg := func(name string, f external) { externals[rootPkg+"."+name] = f }
	tt := func(v Value) *term.Term { return v.(*term.Term) }

	reg("VerifFloat64", func(in *Interp, fn *ssa.Function, a []Value) Value {
		return in.input(term.F64, a[0].(string))
	})
	reg("VerifFloat32", func(in *Interp, fn *ssa.Function, a []Value) Value {
		return in.input(term.F32, a[0].(string))
	})
	// finite: no NaN, no infinities
	bounded := func(in *Interp, v *term.Term, lo, hi float64) {
		if in.job.Bounded && !v.IsConst() && in.job.Mode != "real" {
			a := term.Fabs(v)
			in.addPC(term.Or(term.Feq(v, term.FloatC(v.Sort, 0)),
				term.And(term.Fle(term.FloatC(v.Sort, lo), a), term.Fle(a, term.FloatC(v.Sort, hi)))))
		}
	}
	reg("VerifFinite64", func(in *Interp, fn *ssa.Function, a []Value) Value {
		v := in.input(term.F64, a[0].(string))
		if !v.IsConst() && in.job.Mode != "real" {
			in.addPC(term.Not(term.FisNaN(v)))
			in.addPC(term.Not(term.FisInf(v, 0)))
		}
		bounded(in, v, math.Ldexp(1, -100), math.Ldexp(1, 100))
		return v
	})
	reg("VerifFinite32", func(in *Interp, fn *ssa.Function, a []Value) Value {
		v := in.input(term.F32, a[0].(string))
		if !v.IsConst() && in.job.Mode != "real" {
			in.addPC(term.Not(term.FisNaN(v)))
			in.addPC(term.Not(term.FisInf(v, 0)))
		}
		bounded(in, v, math.Ldexp(1, -30), math.Ldexp(1, 30))
		return v
	})
	reg("VerifInt", func(in *Interp, fn *ssa.Function, a []Value) Value {
		lo, hi := tt(a[1]), tt(a[2])
		var v *term.Term
		if lo.IsConst() && hi.IsConst() {
			v = in.inputR(term.I64, a[0].(string), lo.Int(), hi.Int())
		} else {
			v = in.input(term.I64, a[0].(string))
		}
		if !v.IsConst() {
			in.addPC(term.Le(lo, v))
			in.addPC(term.Le(v, hi))
		}
		return v
	})
	reg("VerifAnyInt", func(in *Interp, fn *ssa.Function, a []Value) Value {
		return in.input(term.I64, a[0].(string))
	})
	reg("VerifIntN", func(in *Interp, fn *ssa.Function, a []Value) Value {
		// VerifIntN(name, bits) int64: arbitrary value of a signed bits-wide type, sign-extended
		bits := int(in.concInt(a[1]))
		v := in.input(term.IntSort(bits, true), a[0].(string))
		return term.IConv(term.I64, v)
	})
	reg("VerifBool", func(in *Interp, fn *ssa.Function, a []Value) Value {
		return in.input(term.Bool, a[0].(string))
	})
	// VerifChoice(name, n): concrete value in [0,n), one path per value
	reg("VerifChoice", func(in *Interp, fn *ssa.Function, a []Value) Value {
		n := in.concInt(a[1])
		v := in.inputR(term.I64, a[0].(string), 0, n-1)
		if v.IsConst() {
			return v
		}
		in.addPC(term.Le(term.IntC(term.I64, 0), v))
		in.addPC(term.Lt(v, term.IntC(term.I64, n)))
		for i := int64(0); i < n-1; i++ {
			if in.decide(term.Eq(v, term.IntC(term.I64, i))) {
				return term.IntC(term.I64, i)
			}
		}
		in.addPC(term.Eq(v, term.IntC(term.I64, n-1)))
		return term.IntC(term.I64, n-1)
	})
	reg("VerifConc", func(in *Interp, fn *ssa.Function, a []Value) Value {
		return term.IntC(term.I64, in.concInt(a[0]))
	})
	reg("VerifAssume", func(in *Interp, fn *ssa.Function, a []Value) Value {
		in.assume(tt(a[0]))
		return nil
	})
	reg("VerifAssert", func(in *Interp, fn *ssa.Function, a []Value) Value {
		in.assert(a[0].(string), tt(a[1]))
		return nil
	})
	traceEq := func(in *Interp, a []Value) {
		x, y := tt(a[1]), tt(a[2])
		if in.concrete && x.IsConst() && y.IsConst() {
			in.trace = append(in.trace, fmt.Sprintf("%s:%x,%x", a[0].(string), math.Float64bits(x.F), math.Float64bits(y.F)))
		}
	}
	reg("VerifAssertEqF", func(in *Interp, fn *ssa.Function, a []Value) Value {
		traceEq(in, a)
		x, y := tt(a[1]), tt(a[2])
		if in.job.Mode == "real" && (hasLogTop(x) || hasLogTop(y)) {
			// exp is injective: compare the exponentials, which the
			// exp-homomorphism turns into rational functions
			x, y = in.expOf(x), in.expOf(y)
		}
		in.assert(a[0].(string), term.FSame(x, y))
		return nil
	})
	reg("VerifAssertEqF32", func(in *Interp, fn *ssa.Function, a []Value) Value {
		traceEq(in, a)
		in.assert(a[0].(string), term.FSame(tt(a[1]), tt(a[2])))
		return nil
	})
	reg("VerifAssertSameBits", func(in *Interp, fn *ssa.Function, a []Value) Value {
		in.assert(a[0].(string), term.FSameBits(tt(a[1]), tt(a[2])))
		return nil
	})
	reg("VerifReach", func(in *Interp, fn *ssa.Function, a []Value) Value {
		label := a[0].(string)
		in.reach = append(in.reach, label)
		if in.res.ReachSeen[label] == 0 && !in.concrete {
			// confirm once per job that the witness is really satisfiable
			if _, _, why := in.modelOfPC(); why != "" && why != "unsat" {
				in.res.ReachSeen[label+"?"]++
				return nil
			} else if why == "unsat" {
				return nil
			}
		}
		in.res.ReachSeen[label]++
		return nil
	})
	// VerifPanics runs f and reports whether it panicked (Go-level panic of the
	// interpreted program; state written before the panic stays).
	reg("VerifPanics", func(in *Interp, fn *ssa.Function, a []Value) (ret Value) {
		depth := in.depth
		defer func() {
			if r := recover(); r != nil {
				if _, ok := r.(execPanic); ok {
					in.depth = depth
					ret = term.True
					return
				}
				panic(r)
			}
		}()
		in.callValue(a[0], nil)
		return term.False
	})
	reg("VerifUF", func(in *Interp, fn *ssa.Function, a []Value) Value {
		var args []*term.Term
		for _, x := range a[1].([]Value) {
			args = append(args, tt(x))
		}
		name := "h." + a[0].(string)
		if in.concrete {
			// self-test: the value of an uninterpreted objective is derived from
			// (seed, name, argument bits), identically in the native runtime
			seed, auto := in.job.Concrete["*auto"]
			if !auto {
				in.unsupported("VerifUF in concrete mode without derived inputs")
			}
			key := a[0].(string)
			for _, x := range args {
				if !x.IsConst() {
					in.unsupported("VerifUF: symbolic argument in concrete mode")
				}
				key += fmt.Sprintf(":%x", math.Float64bits(x.F))
			}
			return term.FloatC(term.F64, autoFloat(seed, "uf/"+key))
		}
		return term.UF(term.F64, name, args...)
	})
	reg("VerifNote", func(in *Interp, fn *ssa.Function, a []Value) Value {
		in.res.Notes[a[0].(string)] += in.concInt(a[1])
		return nil
	})
	// VerifTrace records an observed value for the translator self-test.
	reg("VerifTrace", func(in *Interp, fn *ssa.Function, a []Value) Value {
		t := tt(a[1])
		if t.IsConst() {
			in.trace = append(in.trace, fmt.Sprintf("%s=%x", a[0].(string), math.Float64bits(t.F)))
		}
		return nil
	})
	// VerifPool(k): switch the thread-pool contract stub to k threads (k = 1: the
	// real single-thread code path of the pool runs)
	reg("VerifPool", func(in *Interp, fn *ssa.Function, a []Value) Value {
		in.poolThreads = int(in.concInt(a[0]))
		in.poolJobs = nil
		if in.poolErf == nil {
			if p := in.pkgs[rootPkg]; p != nil {
				in.poolErf = p.Func("VerifNilError")
			}
		}
		return nil
	})
	reg("VerifPoolInterference", func(in *Interp, fn *ssa.Function, a []Value) Value {
		return term.IntC(term.I64, int64(in.poolInterference()))
	})
	// VerifWatch(label, obj): see watch.go; VerifUnwatch(label) ends it
	reg("VerifWatch", func(in *Interp, fn *ssa.Function, a []Value) Value {
		if in.watch == nil {
			in.watch = map[*Value]string{}
		}
		in.watchCollect(a[0].(string), a[1], map[interface{}]bool{}, 0)
		return nil
	})
	reg("VerifUnwatch", func(in *Interp, fn *ssa.Function, a []Value) Value {
		for p, l := range in.watch {
			if l == a[0].(string) {
				delete(in.watch, p)
			}
		}
		return nil
	})
	reg("VerifDefinedAs", func(in *Interp, fn *ssa.Function, a []Value) Value {
		in.definedLabel = a[0].(string)
		return nil
	})
	reg("VerifIsSymbolic", func(in *Interp, fn *ssa.Function, a []Value) Value { return term.True })
	reg("VerifItoa", func(in *Interp, fn *ssa.Function, a []Value) Value {
		return strconv.FormatInt(in.concInt(a[0]), 10)
	})
}
