package exec

// Deterministic input derivation for the translator self-test: a concrete job
// whose variable table holds "*auto" = <seed> gives every input that the table
// does not list a value computed from (seed, variable name). The native
// runtime (harness/rt/zz_verif_rt.go) carries the same functions, so the
// executor and the real build see identical inputs without the driver having
// to know the variable names of a harness.

func autoHash(seed, name string) uint64 {
	h := uint64(14695981039346656037)
	for _, s := range []string{seed, "/", name} {
		for i := 0; i < len(s); i++ {
			h ^= uint64(s[i])
			h *= 1099511628211
		}
	}
	// final avalanche (splitmix64)
	h ^= h >> 30
	h *= 0xbf58476d1ce4e5b9
	h ^= h >> 27
	h *= 0x94d049bb133111eb
	h ^= h >> 31
	return h
}

var autoSpecials = []float64{0.5, 1, 2, 3, 0.25, 1.5, 7.25, 0.125, -1, -2.5, 0, 4}

func autoFloat(seed, name string) float64 {
	h := autoHash(seed, name)
	if h%10 < 3 {
		return autoSpecials[(h>>8)%uint64(len(autoSpecials))]
	}
	// three decimals in (-4, 4), biased to positive values (most harness
	// assumptions ask for positive parameters)
	x := float64(int64((h>>8)%4001)) / 1000
	if (h>>40)%4 == 0 {
		x = -x
	}
	return x
}

func autoInt(seed, name string, lo, hi int64) int64 {
	if hi < lo {
		return lo
	}
	return lo + int64(autoHash(seed, name)%uint64(hi-lo+1))
}

func autoIntN(seed, name string, bits int) int64 {
	return int64(autoHash(seed, name)) >> uint(64-bits)
}

func autoBool(seed, name string) bool { return autoHash(seed, name)&1 == 1 }
