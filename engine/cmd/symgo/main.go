// symgo: symbolic execution of harness functions over /repo's current source.
package main

import (
	"encoding/json"
	"flag"
	"fmt"
	"os"
	"path/filepath"
	"strings"
	"time"

	"verif/engine/exec"
)

func main() {
	repo := flag.String("repo", "/repo", "module root to load")
	overlayDir := flag.String("overlay", "", "directory whose files are overlaid onto the repo (same relative paths)")
	jobsFile := flag.String("jobs", "", "JSON file with a list of jobs")
	out := flag.String("out", "", "output JSON file (default stdout)")
	patterns := flag.String("patterns", ".", "comma separated package patterns to load")
	shard := flag.String("shard", "0/1", "i/n: run jobs with index % n == i")
	special := flag.String("special-bodies", "", "comma separated special.* functions whose bodies are executed symbolically")
	maxSteps := flag.Int("max-steps", 0, "per path step bound")
	flag.Parse()

	cfg := exec.DefaultConfig()
	if *maxSteps > 0 {
		cfg.MaxSteps = *maxSteps
	}
	overlay := map[string][]byte{}
	if *overlayDir != "" {
		filepath.Walk(*overlayDir, func(p string, info os.FileInfo, err error) error {
			if err != nil || info.IsDir() || !strings.HasSuffix(p, ".go") {
				return nil
			}
			rel, _ := filepath.Rel(*overlayDir, p)
			b, err := os.ReadFile(p)
			if err != nil {
				return nil
			}
			overlay[filepath.Join(*repo, rel)] = b
			return nil
		})
	}
	var jobs []exec.Job
	b, err := os.ReadFile(*jobsFile)
	if err != nil {
		fmt.Fprintln(os.Stderr, "symgo: jobs:", err)
		os.Exit(2)
	}
	if err := json.Unmarshal(b, &jobs); err != nil {
		fmt.Fprintln(os.Stderr, "symgo: jobs:", err)
		os.Exit(2)
	}
	var si, sn int
	fmt.Sscanf(*shard, "%d/%d", &si, &sn)
	if sn <= 0 {
		sn = 1
	}
	t0 := time.Now()
	in, err := exec.Load(*repo, overlay, strings.Split(*patterns, ","), cfg)
	if err != nil {
		fmt.Fprintln(os.Stderr, "symgo: load:", err)
		os.Exit(2)
	}
	defer in.Close()
	for _, s := range strings.Split(*special, ",") {
		if s != "" {
			in.SpecialBody(s)
		}
	}
	if err := in.RunInits(); err != nil {
		fmt.Fprintln(os.Stderr, "symgo:", err)
		os.Exit(2)
	}
	if d := os.Getenv("SYMGO_GLOBALS"); d != "" {
		in.DebugGlobals(d)
	}
	loadMs := time.Since(t0).Milliseconds()
	type output struct {
		LoadMs int64          `json:"load_ms"`
		Jobs   []*exec.JobRes `json:"jobs"`
	}
	o := output{LoadMs: loadMs}
	for i, j := range jobs {
		if i%sn != si {
			continue
		}
		jr := in.RunJob(j)
		if os.Getenv("SYMGO_PROGRESS") != "" {
			fmt.Fprintf(os.Stderr, "job %d %s%v: paths=%d wall=%dms solver=%dms queries=%d\n", i, j.Func, j.Args, len(jr.Paths), jr.WallMs, jr.SolverMs, jr.Queries)
		}
		o.Jobs = append(o.Jobs, jr)
	}
	enc, err := json.MarshalIndent(o, "", " ")
	if err != nil {
		fmt.Fprintln(os.Stderr, "symgo: cannot encode results:", err)
		os.Exit(3)
	}
	if *out == "" {
		os.Stdout.Write(enc)
	} else if err := os.WriteFile(*out, enc, 0644); err != nil {
		fmt.Fprintln(os.Stderr, "symgo: write:", err)
		os.Exit(2)
	}
}
